"""C11 — faithfulness of the human-readable multisig PSBT summary (PSBT.describe_basic_multisig).

A *scenario* is the canonical (int / bytes / list) description of a PSBT as the summary sees it; the
implementation side rebuilds real buidl objects from it (bypassing the constructors' own validate(),
which describe_basic_multisig repeats anyway), the model side reads the same structure.

scenario = [net, ins, outs, hdmap, hd_pubs, table]
  in     = [txid, index, nonwit, wit, redeem, witness, pubs, value]
             nonwit = [] | [[hash, [[amount, cmds]..], raw]]      (raw = b"" -> stub object)
             wit    = [] | [[amount, cmds]]
             redeem / witness = [] | [cmds]        cmds = list of int (opcode) / bytes (push)
             pubs   = [[dict_key, sec, xfp, path]..]   path = list of child numbers
             value  = [] | [tx_in._value]
  out    = [amount, cmds, redeem, witness, pubs]
  hdmap  = [[xfp, xpub_id, depth]..]      (xpub_id = HDPublicKey.raw_serialize())
  hd_pubs= [[xfp, path, xpub_id]..]       (PSBT global xpubs)
  table  = [[xpub_id, path, [] | [sec]]..]   (HDPublicKey.traverse/child results = the model's `derive`)
"""
import hashlib
from io import BytesIO

from buidl import psbt as psbt_mod
from buidl.hd import HDPrivateKey, HDPublicKey
from buidl.helper import encode_varstr, int_to_little_endian, child_to_path
from buidl.psbt import PSBT, PSBTIn, PSBTOut, NamedPublicKey, NamedHDPublicKey
from buidl.script import (RedeemScript, WitnessScript, ScriptPubKey, Script, P2SHScriptPubKey,
                          P2WSHScriptPubKey, address_to_script_pubkey)
from buidl.tx import Tx, TxIn, TxOut, TxFetcher
from buidl.psbt_helper import create_multisig_psbt

PID = "C11"
NETS = ["mainnet", "testnet"]
NET = 1
H = 0x80000000


# ---------------------------------------------------------------- never touch the network
def _no_network(*a, **k):
    raise RuntimeError("network access attempted")


TxFetcher.fetch = classmethod(lambda cls, *a, **k: _no_network())


# ---------------------------------------------------------------- wallets and derivation cache
_COSIGNERS = {}
_XPUBS = {}      # xpub_id -> HDPublicKey
_DERIVED = {}    # (xpub_id, path tuple, mode) -> sec | None


def path_str(comps):
    return "m" + "".join(child_to_path(c) for c in comps)


def cosigner(i):
    """(xfp, account HDPublicKey at m/45', xpub_id) of deterministic test cosigner i."""
    if i not in _COSIGNERS:
        root = HDPrivateKey.from_seed(hashlib.sha256(b"verif-c11-cosigner-%d" % i).digest(), network=NETS[NET])
        acct = root.traverse("m/45'").pub
        xid = acct.raw_serialize()
        _XPUBS[xid] = acct
        _COSIGNERS[i] = (root.fingerprint(), acct, xid)
    return _COSIGNERS[i]


def xpub_obj(xid):
    if xid not in _XPUBS:
        _XPUBS[xid] = HDPublicKey.raw_parse(BytesIO(xid), network=NETS[NET])
    return _XPUBS[xid]


def derive_traverse(xid, comps):
    """what `hdpub.traverse(ltrim_path(...)).sec()` gives for the trimmed components (None = raises)."""
    k = (xid, tuple(comps), "t")
    if k not in _DERIVED:
        try:
            _DERIVED[k] = xpub_obj(xid).traverse("m/" + "/".join(
                (str(c - H) + "h") if c >= H else str(c) for c in comps)).sec()
        except Exception:
            _DERIVED[k] = None
    return _DERIVED[k]


def derive_children(xid, comps):
    """what NamedHDPublicKey.verify_descendent walks: iterated child() (None = raises)."""
    k = (xid, tuple(comps), "c")
    if k not in _DERIVED:
        if not comps:
            _DERIVED[k] = xpub_obj(xid).sec()
        elif comps[-1] >= H or derive_children(xid, comps[:-1]) is None:
            _DERIVED[k] = None
        else:
            _DERIVED[k] = derive_traverse(xid, comps)
    return _DERIVED[k]


# ---------------------------------------------------------------- scenario -> objects
def _new(cls, **kw):
    o = object.__new__(cls)
    for k, v in kw.items():
        setattr(o, k, v)
    return o


def _opt(x):
    return x[0] if x else None


def spk_obj(cmds):
    """script_pubkey object as the parser would produce it (class chosen by pattern)."""
    return ScriptPubKey.parse(BytesIO(Script(list(cmds)).serialize()))


class StubTx:
    """previous transaction given only by its hash and outputs"""
    def __init__(self, h, outs):
        self._h = h
        self.tx_outs = outs

    def hash(self):
        return self._h


def named_pub(sec, xfp, comps):
    raw_path = xfp + b"".join(int_to_little_endian(c, 4) for c in comps)
    return NamedPublicKey.parse(b"\x06" + sec, BytesIO(encode_varstr(raw_path)), network=NETS[NET])


def build(sc):
    net, ins, outs, hdmap, hdpubs, table = sc
    network = NETS[net]
    tx_ins, psbt_ins = [], []
    for txid, idx, nonwit, wit, redeem, witness, pubs, value in ins:
        tx_in = TxIn(txid, idx)
        tx_in._value = _opt(value)
        prev_tx = None
        if nonwit:
            h, pouts, raw = nonwit[0]
            if raw:
                prev_tx = Tx.parse(BytesIO(raw), network=network)
                if prev_tx.hash() != h or [[o.amount, list(o.script_pubkey.commands)] for o in prev_tx.tx_outs] != pouts:
                    raise AssertionError("harness: incoherent scenario (raw previous tx)")
            else:
                prev_tx = StubTx(h, [TxOut(a, spk_obj(c)) for a, c in pouts])
        prev_out = TxOut(wit[0][0], spk_obj(wit[0][1])) if wit else None
        if prev_tx is not None and 0 <= idx < len(prev_tx.tx_outs):
            tx_in._script_pubkey = prev_tx.tx_outs[idx].script_pubkey
        elif prev_out is not None:
            tx_in._script_pubkey = prev_out.script_pubkey
        named = {}
        for key, sec, xfp, comps in pubs:
            named[key] = named_pub(sec, xfp, comps)
        psbt_ins.append(_new(PSBTIn, tx_in=tx_in, prev_tx=prev_tx, prev_out=prev_out, sigs={}, hash_type=None,
                             redeem_script=RedeemScript(list(redeem[0])) if redeem else None,
                             witness_script=WitnessScript(list(witness[0])) if witness else None,
                             named_pubs=named, script_sig=None, witness=None, extra_map={}))
        tx_ins.append(tx_in)
    tx_outs, psbt_outs = [], []
    for amount, cmds, redeem, witness, pubs in outs:
        tx_out = TxOut(amount, spk_obj(cmds))
        named = {}
        for key, sec, xfp, comps in pubs:
            named[key] = named_pub(sec, xfp, comps)
        psbt_outs.append(_new(PSBTOut, tx_out=tx_out,
                              redeem_script=RedeemScript(list(redeem[0])) if redeem else None,
                              witness_script=WitnessScript(list(witness[0])) if witness else None,
                              named_pubs=named, extra_map={}))
        tx_outs.append(tx_out)
    tx = Tx(2, tx_ins, tx_outs, 0, network=network, segwit=False)
    hd_pubs = {}
    for xfp, comps, xid in hdpubs:
        hp = HDPublicKey.raw_parse(BytesIO(xid), network=network)
        nhp = NamedHDPublicKey.from_hd_pub(hp, xfp.hex(), path_str(comps))
        hd_pubs[nhp.serialize()] = nhp
    p = _new(PSBT, tx_obj=tx, psbt_ins=psbt_ins, psbt_outs=psbt_outs, hd_pubs=hd_pubs, extra_map={},
             network=network)
    hmap = {}
    for xfp, xid, depth in hdmap:
        o = HDPublicKey.raw_parse(BytesIO(xid), network=network)
        if o.depth != depth:
            raise AssertionError("harness: incoherent scenario (depth)")
        hmap[xfp.hex()] = o
    return p, hmap


def _addr_cmds(addr):
    return [] if addr == "" else [list(address_to_script_pubkey(addr).commands)]


def summary(d):
    """the fields of describe_basic_multisig's result that the model also computes"""
    ins = []
    for i in d["inputs_desc"]:
        m, n = i["quorum"].split("-of-")
        ins.append([int(m), int(n), i["sats"]])
    outs = [[o["sats"], o["is_change"]] for o in d["outputs_desc"]]
    return [d["tx_fee_sats"], d["total_input_sats"], d["total_output_sats"], d["spend_sats"], d["change_sats"],
            _addr_cmds(d["spend_addr"]), _addr_cmds(d["change_addr"]), d["is_batch_tx"], ins, outs]


_MEMO = {}


def i_describe(sc):
    """describe_basic_multisig on the rebuilt objects (outcome memoised per scenario: the engine asks for
    the same scenario once as a correspondence case and once inside a property predicate)"""
    from vp import sexp
    k = hashlib.sha1(sexp.enc(sc).encode()).digest()
    if k not in _MEMO:
        if len(_MEMO) > 64:
            _MEMO.clear()
        try:
            p, hmap = build(sc)
            _MEMO[k] = (summary(p.describe_basic_multisig(hdpubkey_map=hmap)), None)
        except AssertionError:
            raise
        except Exception as e:  # noqa
            _MEMO[k] = (None, e)
    v, e = _MEMO[k]
    if e is not None:
        raise e
    return v


def i_validate_in(sc, k):
    p, _ = build(sc)
    p.psbt_ins[k].validate()
    return 1


def i_validate_out(sc, k):
    p, _ = build(sc)
    p.psbt_outs[k].validate()
    return 1


def i_quorum(kind, cmds):
    s = (WitnessScript if kind else RedeemScript)(list(cmds))
    return list(s.get_quorum())


def i_honest_spec(sc, m):
    """1 iff the implementation summarises the PSBT.  The model side of this correspondence case is NOT the
    model of describe but the declarative wallet relation Spec/PsbtHonest.v (honest_psbt_b), the premise of the
    completeness theorem C11_honest_psbt_summarised: on every generated PSBT — honest ones (also those made by
    create_multisig_psbt), every tampering, random mutations — "is an honest m-of-n wallet spend" has to coincide
    with "the implementation returns a summary"."""
    try:
        i_describe(sc)
    except AssertionError:
        raise
    except Exception:  # noqa
        return 0
    return 1


def spec_m(sc):
    """the threshold the first input's script states (0 when it states none)"""
    i = sc[1][0]
    s = (i[5] or i[4] or [[0]])[0]
    return s[0] - 0x50 if s and isinstance(s[0], int) else 0


def outside_spec(sc):
    """PSBT shapes that describe_basic_multisig accepts although they are outside the declarative relation
    (which is deliberately narrower): a payment output that carries scripts but no keys"""
    return any((not o[4]) and (o[2] or o[3]) for o in sc[2])


IMPL = {"describe": i_describe, "validate_in": i_validate_in, "validate_out": i_validate_out,
        "quorum": i_quorum, "honest_spec": i_honest_spec}


# ---------------------------------------------------------------- objects -> scenario, derive table
def _comps(raw_path):
    b = raw_path[4:]
    return [int.from_bytes(b[i:i + 4], "little") for i in range(0, len(b), 4)]


def _pubs(named):
    return [[k, v.sec(), v.root_fingerprint, _comps(v.raw_path)] for k, v in named.items()]


def _cmds(s):
    return [list(s.commands)] if s is not None else []


def with_table(sc):
    """(re)compute the derive table of a scenario with the implementation's own HD code."""
    net, ins, outs, hdmap, hdpubs, _ = sc
    table = {}
    allpubs = [p for i in ins for p in i[6]] + [p for o in outs for p in o[4]]
    maps = [(xfp, xid, depth) for xfp, xid, depth in hdmap] + [(xfp, xid, len(comps)) for xfp, comps, xid in hdpubs]
    for key, sec, xfp, comps in allpubs:
        for mxfp, xid, depth in maps:
            if mxfp == xfp and 0 <= depth < len(comps):
                t = comps[depth:]
                table[(xid, tuple(t))] = derive_traverse(xid, t)
        for hxfp, hcomps, xid in hdpubs:
            if hxfp == xfp and comps[:len(hcomps)] == hcomps:
                t = comps[len(hcomps):]
                table[(xid, tuple(t))] = derive_children(xid, t)
    tl = [[xid, list(t), [] if s is None else [s]] for (xid, t), s in sorted(table.items())]
    return [net, ins, outs, hdmap, hdpubs, tl]


def to_scenario(p, hmap):
    """PSBT object (+ hdpubkey_map of HDPublicKey objects) -> scenario"""
    ins = []
    for pi in p.psbt_ins:
        nonwit = []
        if pi.prev_tx is not None:
            nonwit = [[pi.prev_tx.hash(), [[o.amount, list(o.script_pubkey.commands)] for o in pi.prev_tx.tx_outs],
                       pi.prev_tx.serialize()]]
        wit = [[pi.prev_out.amount, list(pi.prev_out.script_pubkey.commands)]] if pi.prev_out is not None else []
        ins.append([pi.tx_in.prev_tx, pi.tx_in.prev_index, nonwit, wit, _cmds(pi.redeem_script),
                    _cmds(pi.witness_script), _pubs(pi.named_pubs),
                    [] if pi.tx_in._value is None else [pi.tx_in._value]])
    outs = [[po.tx_out.amount, list(po.tx_out.script_pubkey.commands), _cmds(po.redeem_script),
             _cmds(po.witness_script), _pubs(po.named_pubs)] for po in p.psbt_outs]
    hdmap = []
    for xfp_hex, o in hmap.items():
        xid = o.raw_serialize()
        _XPUBS.setdefault(xid, o)
        hdmap.append([bytes.fromhex(xfp_hex), xid, o.depth])
    hdpubs = []
    for nhp in p.hd_pubs.values():
        hdpubs.append([nhp.root_fingerprint, _comps(nhp.raw_path), HDPublicKey.raw_serialize(nhp)])
    return with_table([NETS.index(p.network), ins, outs, hdmap, hdpubs, []])


# ---------------------------------------------------------------- honest wallets
def msig_cmds(m, secs, n_op=None):
    return [0x50 + m] + sorted(secs) + [0x50 + (len(secs) if n_op is None else n_op), 174]


def h160(b):
    return hashlib.new("ripemd160", hashlib.sha256(b).digest()).digest()


def raw_script(cmds):
    return Script(list(cmds)).raw_serialize()


def p2sh_of(cmds):
    return [0xA9, h160(raw_script(cmds)), 0x87]


def p2wsh_of(cmds):
    return [0, hashlib.sha256(raw_script(cmds)).digest()]


def key_path(branch, j):
    return [45 + H, branch, j]


def wallet_keys(n, branch, j, cos=None):
    """[(sec, xfp, path)] of the n cosigners' keys at m/45'/branch/j"""
    out = []
    for c in (cos if cos is not None else range(n)):
        xfp, acct, xid = cosigner(c)
        out.append((derive_traverse(xid, [branch, j]), xfp, key_path(branch, j)))
    return out


def wallet_map(n, cos=None):
    return [[cosigner(c)[0], cosigner(c)[2], 1] for c in (cos if cos is not None else range(n))]


def prev_tx_for(rng_bytes, outs):
    """a real previous transaction paying the given [(amount, cmds)]"""
    tx = Tx(1, [TxIn(rng_bytes, 0)], [TxOut(a, spk_obj(c)) for a, c in outs], 0, network=NETS[NET])
    return tx


def pubs_of(keys):
    return [[sec, sec, xfp, path] for sec, xfp, path in keys]


def make_input(ctx, kind, m, keys, amount, utxo):
    """one wallet input: a real previous transaction paying `amount` to the m-of-keys script"""
    r = ctx.rng
    script = msig_cmds(m, [k[0] for k in keys])
    spk = p2sh_of(script) if kind == "p2sh" else p2wsh_of(script)
    idx = r.randrange(0, 3)
    pouts = [(r.randrange(1000, 10 ** 8), [0, ctx.rbytes(20)]) for _ in range(idx)] + [(amount, spk)] + \
            [(r.randrange(1000, 10 ** 8), [0x76, 0xA9, ctx.rbytes(20), 0x88, 0xAC]) for _ in range(r.randrange(0, 2))]
    ptx = prev_tx_for(ctx.rbytes(32), pouts)
    nonwit = [[ptx.hash(), [[a, list(c)] for a, c in pouts], ptx.serialize()]] if utxo in ("nonwit", "both") else []
    wit = [[amount, spk]] if utxo in ("wit", "both") else []
    return [ptx.hash(), idx, nonwit, wit, [script] if kind == "p2sh" else [],
            [script] if kind != "p2sh" else [], pubs_of(keys), [amount]]


def change_output(kind, m, keys, amount):
    script = msig_cmds(m, [k[0] for k in keys])
    if kind == "p2sh":
        return [amount, p2sh_of(script), [script], [], pubs_of(keys)]
    if kind == "p2sh-p2wsh":
        red = p2wsh_of(script)
        return [amount, p2sh_of(red), [red], [script], pubs_of(keys)]
    return [amount, p2wsh_of(script), [], [script], pubs_of(keys)]


def spend_output(ctx, a):
    t = ctx.rng.randrange(5)
    cm = [[0x76, 0xA9, ctx.rbytes(20), 0x88, 0xAC], [0xA9, ctx.rbytes(20), 0x87], [0, ctx.rbytes(20)],
          [0, ctx.rbytes(32)], [0x51, ctx.rbytes(32)]][t]
    return [a, cm, [], [], []]


def honest(ctx, kind, m, n, n_in, spends, change, utxo="auto", fee=None, change_kind=None):
    """An honest m-of-n wallet spend.  kind: p2sh | p2wsh; spends: amounts paid to foreign addresses;
    change: None or amount; utxo: nonwit | wit | both; change_kind: p2sh | p2wsh | p2sh-p2wsh."""
    r = ctx.rng
    if utxo == "auto":
        utxo = "nonwit" if kind == "p2sh" else "wit"
    need = sum(spends) + (change or 0) + (fee if fee is not None else r.randrange(200, 5000))
    ins = []
    for j in range(n_in):
        amount = need // n_in + (need % n_in if j == 0 else 0)
        ins.append(make_input(ctx, kind, m, wallet_keys(n, 0, j), amount, utxo))
    outs = [spend_output(ctx, a) for a in spends]
    if change is not None:
        o = change_output(change_kind or kind, m, wallet_keys(n, 1, r.randrange(0, 2)), change)
        outs.insert(r.randrange(0, len(outs) + 1), o)
    return with_table([NET, ins, outs, wallet_map(n), [], []])


def helper_args(ctx, m, n, n_in, spends, change):
    """canonical arguments of psbt_helper.create_multisig_psbt for an honest P2SH wallet spend:
    [records, ins, outs, fee]   records = [[xfp, xpub_b58, base_path]..]
    ins = [[quorum_m, [[xfp, path]..], prev_tx_raw, prev_tx_hash, output_idx, output_sats]..]
    outs = [[sats, address, quorum_m | -1, [[xfp, path]..]]..]        (strings as utf-8 bytes)"""
    r = ctx.rng
    records = [[cosigner(c)[0], cosigner(c)[1].xpub().encode(), b"m/45'"] for c in range(n)]
    fee = r.randrange(200, 5000)
    need = sum(spends) + (change or 0) + fee
    ins = []
    for j in range(n_in):
        amount = need // n_in + (need % n_in if j == 0 else 0)
        i = make_input(ctx, "p2sh", m, wallet_keys(n, 0, j), amount, "nonwit")
        ins.append([m, [[cosigner(c)[0], path_str(key_path(0, j)).encode()] for c in range(n)],
                    i[2][0][2], i[0], i[1], amount])
    outs = []
    for a in spends:
        outs.append([a, spk_obj(spend_output(ctx, a)[1]).address(NETS[NET]).encode(), -1, []])
    if change is not None:
        j = r.randrange(0, 2)
        o = change_output("p2sh", m, wallet_keys(n, 1, j), change)
        outs.insert(r.randrange(0, len(outs) + 1),
                    [change, spk_obj(o[1]).address(NETS[NET]).encode(), m,
                     [[cosigner(c)[0], path_str(key_path(1, j)).encode()] for c in range(n)]])
    return [records, ins, outs, fee]


def run_builder(bargs, script_type="p2sh"):
    records, ins, outs, fee = bargs
    recs = [[x.hex(), xp.decode(), bp.decode()] for x, xp, bp in records]
    input_dicts = [{"quorum_m": m, "path_dict": {x.hex(): pth.decode() for x, pth in paths},
                    "prev_tx_dict": {"hex": raw.hex(), "hash_hex": h.hex(), "output_idx": idx, "output_sats": sats}}
                   for m, paths, raw, h, idx, sats in ins]
    output_dicts = []
    for sats, addr, m, paths in outs:
        d = {"sats": sats, "address": addr.decode()}
        if m >= 0:
            d["quorum_m"] = m
            d["path_dict"] = {x.hex(): pth.decode() for x, pth in paths}
        output_dicts.append(d)
    return create_multisig_psbt(recs, input_dicts, output_dicts, fee, script_type=script_type)


def helper_psbt(ctx, m, n, n_in, spends, change):
    """honest P2SH PSBT made by psbt_helper.create_multisig_psbt; returns (psbt object, hdpubkey_map, args)"""
    bargs = helper_args(ctx, m, n, n_in, spends, change)
    p = run_builder(bargs)
    hmap = {cosigner(c)[0].hex(): HDPublicKey.parse(cosigner(c)[1].xpub()) for c in range(n)}
    return p, hmap, bargs


# ---- create_multisig_psbt as a correspondence case: the model (Model/PsbtBuilder.v) gets what the implementation's
# own parsers make of the strings; the implementation gets the strings
def builder_case(bargs):
    """[recs, ins, outs, fee, btab, dtab] for the op create_psbt:
    rec = [xfp, xpub_b58, base_path, base comps, xpub_id, depth, net]     in = [m, paths, raw tx, hash, idx, sats, [hash, outs]]
    out = [sats, address, m, paths, scriptPubKey cmds]
    btab = [[xfp, path, [] | [sec, comps]]..]   what _safe_get_child_hdpubkey + NamedHDPublicKey.from_hd_pub give
    dtab = [[xpub_id, comps, [] | [sec]]..]     HDPublicKey.child iterated (PSBT.validate's descendant check)"""
    from buidl.psbt_helper import _safe_get_child_hdpubkey
    from collections import defaultdict
    records, ins, outs, fee = bargs
    recs, xfp_dict = [], defaultdict(dict)
    for xfp, xp, bp in records:
        o = HDPublicKey.parse(xp.decode())
        xfp_dict[xfp.hex()][bp.decode()] = o
        xid = o.raw_serialize()
        _XPUBS.setdefault(xid, o)
        comps = _comps(b"\0\0\0\0" + psbt_mod.serialize_binary_path(bp.decode()))
        recs.append([xfp, xp, bp, comps, xid, o.depth, NETS.index(o.network)])
    btab, dtab = {}, {}
    for paths in [i[1] for i in ins] + [o[3] for o in outs]:
        for xfp, pth in paths:
            try:
                child = _safe_get_child_hdpubkey(xfp_dict, xfp.hex(), pth.decode(), 0)
                nh = NamedHDPublicKey.from_hd_pub(HDPublicKey.raw_parse(BytesIO(child.raw_serialize()),
                                                                        network=child.network),
                                                  xfp.hex(), pth.decode())
                btab[(xfp, pth)] = [nh.sec(), _comps(nh.raw_path)]
            except AssertionError:
                raise
            except Exception:  # noqa
                btab[(xfp, pth)] = []
    for (xfp, pth), v in btab.items():
        if v:
            for r in recs:
                if r[0] == xfp and v[1][:len(r[3])] == r[3]:
                    t = v[1][len(r[3]):]
                    sec = derive_children(r[4], t)
                    dtab[(r[4], tuple(t))] = [] if sec is None else [sec]
    mins = []
    for m, paths, raw, h, idx, sats in ins:
        tx = Tx.parse(BytesIO(raw), network=NETS[NET])
        mins.append([m, paths, raw, h, idx, sats,
                     [tx.hash(), [[o.amount, list(o.script_pubkey.commands)] for o in tx.tx_outs]]])
    mouts = [[sats, addr, m, paths, list(address_to_script_pubkey(addr.decode()).commands)]
             for sats, addr, m, paths in outs]
    return [recs, mins, mouts, fee, [[x, pth, v] for (x, pth), v in btab.items()],
            [[xid, list(t), v] for (xid, t), v in dtab.items()]]


def i_create_psbt(recs, ins, outs, fee, btab, dtab):
    """create_multisig_psbt on the strings; the resulting PSBT object as [ins, outs, hd_pubs] records"""
    with _memo_mul():
        p = run_builder([[r[:3] for r in recs], [i[:6] for i in ins], [o[:4] for o in outs], fee])
    sc = to_scenario(p, {})
    pins = [[i[0], i[1], [x[:2] for x in i[2]], i[3], i[4], i[5], i[6], i[7]] for i in sc[1]]
    return [pins, sc[2], sc[4]]


IMPL["create_psbt"] = i_create_psbt


def _bump_path(pth):
    head, _, last = pth.decode().rpartition("/")
    return (head + "/" + str(int(last) + 1)).encode()


BUILDER_TAMPERS = ["fee", "output-sats", "hash-hex", "input-quorum", "input-path", "spend-amount", "unknown-xfp",
                   "script-type", "change-address", "change-path", "change-quorum", "change-amount",
                   "input-index"]


def builder_tamper(ctx, bargs, kind):
    """the honest builder arguments with one cross-checked datum altered (None when not applicable)"""
    t = _copy.deepcopy(bargs)
    records, ins, outs, fee = t
    r = ctx.rng
    n = len(records)
    i = ins[r.randrange(len(ins))]
    chg = [o for o in outs if o[2] >= 0]
    if kind == "fee":
        t[3] = fee + r.choice([-1, 1, 1000])
    elif kind == "output-sats":
        i[5] += r.choice([-1, 1, 100000])
    elif kind == "hash-hex":
        i[3] = ctx.rbytes(32)
    elif kind == "input-quorum":
        if n < 2:
            return None
        i[0] = i[0] + 1 if i[0] < n else i[0] - 1
    elif kind == "input-path":
        pp = i[1][r.randrange(n)]
        pp[1] = _bump_path(pp[1])
    elif kind == "input-index":
        tx = Tx.parse(BytesIO(i[2]), network=NETS[NET])
        if len(tx.tx_outs) < 2:
            return None
        i[4] = (i[4] + 1) % len(tx.tx_outs)
        i[5] = tx.tx_outs[i[4]].amount
        t[3] = None                          # recomputed below: the fee is made consistent
    elif kind == "spend-amount":
        o = outs[r.randrange(len(outs))]
        o[0] += r.choice([-1, 1])
    elif kind == "unknown-xfp":
        i[1][r.randrange(n)][0] = ctx.rbytes(4)
    elif kind == "script-type":
        pass
    elif not chg:
        return None
    elif kind == "change-address":
        evil = msig_cmds(1, [k[0] for k in _foreign_keys(1)])
        chg[0][1] = spk_obj(p2sh_of(evil)).address(NETS[NET]).encode()
    elif kind == "change-path":
        pp = chg[0][3][r.randrange(n)]
        pp[1] = _bump_path(pp[1])
    elif kind == "change-quorum":
        if n < 2:
            return None
        chg[0][2] = chg[0][2] + 1 if chg[0][2] < n else chg[0][2] - 1
    elif kind == "change-amount":
        chg[0][0] += 1
    if t[3] is None:
        t[3] = sum(x[5] for x in ins) - sum(o[0] for o in outs)
    return t


BUILDER_VARIANTS = ["spend-to-input-script", "change-without-paths", "same-outpoint-twice", "dup-xfp", "m-zero",
                    "m-too-big", "empty-path-dict", "extra-record", "record-depth", "index-out-of-range"]


def builder_variant(ctx, bargs, kind):
    """further builder arguments for the correspondence with Model/PsbtBuilder.v (accepted or refused - whatever
    the implementation does, the model has to do the same): branches of PSBTIn/PSBTOut.update and of the lookups"""
    t = _copy.deepcopy(bargs)
    records, ins, outs, fee = t
    r = ctx.rng
    n = len(records)
    chg = [o for o in outs if o[2] >= 0]
    if kind == "spend-to-input-script":
        tx = Tx.parse(BytesIO(ins[0][2]), network=NETS[NET])
        a = max(1, fee // 2)
        outs.append([a, tx.tx_outs[ins[0][4]].script_pubkey.address(NETS[NET]).encode(), -1, []])
        t[3] = fee - a
    elif kind == "change-without-paths":
        if not chg:
            return None
        chg[0][2], chg[0][3] = -1, []
    elif kind == "same-outpoint-twice":
        ins.append(_copy.deepcopy(ins[0]))
        t[3] = fee + ins[0][5]
    elif kind == "dup-xfp":
        if n < 2:
            return None
        ins[0][1][1][0] = ins[0][1][0][0]
    elif kind == "m-zero":
        ins[0][0] = 0
    elif kind == "m-too-big":
        (chg[0] if chg else ins[0])[2 if chg else 0] = n + 1
    elif kind == "empty-path-dict":
        if not chg:
            return None
        chg[0][3] = []
    elif kind == "extra-record":
        records.append([cosigner(11)[0], cosigner(11)[1].xpub().encode(), b"m/45'"])
    elif kind == "record-depth":
        records[r.randrange(n)][2] = b"m/45'/0"
    elif kind == "index-out-of-range":
        ins[0][4] = 7
    return t


def p_builder_crosschecks(kind, bargs):
    """psbt_helper.create_multisig_psbt: honest arguments give a PSBT that the summary describes with exactly the
    fee, the payments and the change the caller stated (also after a serialisation round trip, where tx_in._value
    is set by PSBTIn.parse); arguments with ONE altered datum (fee, amount, hash, index, threshold, path,
    fingerprint, change address / path / threshold, script type) are refused"""
    with _memo_mul():
        return _builder_crosschecks(kind.decode(), bargs)


def _builder_crosschecks(kind, bargs):
    try:
        p = run_builder(bargs, "p2wsh" if kind == "script-type" else "p2sh")
    except AssertionError:
        raise
    except Exception as e:  # noqa
        return None if kind != "honest" else "honest arguments refused: %r" % (e,)
    if kind != "honest":
        return "arguments with tampering %s were accepted by create_multisig_psbt" % kind
    records, ins, outs, fee = bargs
    for q in (p, PSBT.parse(BytesIO(p.serialize()), network=p.network)):
        if [pi.tx_in._value for pi in q.psbt_ins] != [i[5] for i in ins]:
            return "tx_in._value is not the amount of the attached UTXO record"
        d = q.describe_basic_multisig()
        if d["tx_fee_sats"] != fee:
            return "summary fee %d, builder fee %d" % (d["tx_fee_sats"], fee)
        if [o["is_change"] for o in d["outputs_desc"]] != [o[2] >= 0 for o in outs]:
            return "change flags differ from the builder's path_dict outputs"
        if [(o["sats"], o["addr"]) for o in d["outputs_desc"]] != [(o[0], o[1].decode()) for o in outs]:
            return "outputs differ from the builder's"
        if d["spend_sats"] != sum(o[0] for o in outs if o[2] < 0) or \
                d["change_sats"] != sum(o[0] for o in outs if o[2] >= 0):
            return "spend / change totals"
        if d["total_input_sats"] != sum(i[5] for i in ins):
            return "total input"
    return None


# ---------------------------------------------------------------- the tamper catalogue
import copy as _copy


def _chg(sc):
    for k, o in enumerate(sc[2]):
        if o[4]:
            return k
    return None


def _kind(sc):
    return "p2sh" if sc[1][0][4] else "p2wsh"


def _quorum(sc):
    i = sc[1][0]
    s = (i[4] or i[5])[0]
    return s[0] - 0x50, len(s) - 3


def _foreign_keys(n, j=3):
    return wallet_keys(n, 0, j, cos=[10 + c for c in range(n)])


def _set_out_script(o, kind, script, fix_spk):
    if o[3] and o[2]:                 # p2sh-p2wsh
        o[3] = [script]
        if fix_spk:
            o[2] = [p2wsh_of(script)]
            o[1] = p2sh_of(o[2][0])
    elif o[3]:
        o[3] = [script]
        if fix_spk:
            o[1] = p2wsh_of(script)
    else:
        o[2] = [script]
        if fix_spk:
            o[1] = p2sh_of(script)


def _retx(i, f):
    """re-serialize the attached previous transaction after editing it (its hash changes)"""
    h, pouts, raw = i[2][0]
    tx = Tx.parse(BytesIO(raw), network=NETS[NET])
    f(tx)
    i[2] = [[tx.hash(), [[o.amount, list(o.script_pubkey.commands)] for o in tx.tx_outs], tx.serialize()]]


def tampers(ctx, sc):
    """yield (kind, tampered scenario) for every catalogue item applicable to the honest scenario"""
    r = ctx.rng
    kind = _kind(sc)
    m, n = _quorum(sc)
    c = _chg(sc)
    n_in = len(sc[1])

    def cp():
        return _copy.deepcopy(sc)

    if c is not None:
        # swapped output scriptPubKey keeping the change metadata
        t = cp(); o = t[2][c]
        evil = msig_cmds(1, [k[0] for k in _foreign_keys(1)])
        o[1] = p2wsh_of(evil) if o[1][0] == 0 else p2sh_of(evil)
        yield "swap-output-spk", t
        # foreign script attached to the change output
        t = cp(); o = t[2][c]
        _set_out_script(o, kind, msig_cmds(m, [k[0] for k in _foreign_keys(n)]), False)
        yield "foreign-out-script", t
        # the same with a matching scriptPubKey: the named keys are then not in the script
        t = cp(); o = t[2][c]
        _set_out_script(o, kind, msig_cmds(m, [k[0] for k in _foreign_keys(n)]), True)
        yield "foreign-out-script-spk", t
        # foreign fingerprint / xpub / wrong path on the change output
        t = cp(); t[2][c][4][r.randrange(n)][2] = ctx.rbytes(4)
        yield "foreign-xfp-out", t
        t = cp(); pb = t[2][c][4][r.randrange(n)]; pb[3] = pb[3][:-1] + [pb[3][-1] + 1]
        yield "wrong-path-out", t
        # changed quorum on the change output (genuine keys, matching scriptPubKey)
        if n >= 2:
            t = cp(); o = t[2][c]
            m2 = m + 1 if m < n else m - 1
            _set_out_script(o, kind, msig_cmds(m2, [p[1] for p in o[4]]), True)
            yield "quorum-out", t
            # change script whose keys all come from one cosigner
            t = cp(); o = t[2][c]
            xfp0, _, xid0 = cosigner(0)
            keys = [(derive_traverse(xid0, [1, 20 + j]), xfp0, key_path(1, 20 + j)) for j in range(n)]
            o[4] = pubs_of(keys)
            _set_out_script(o, kind, msig_cmds(m, [k[0] for k in keys]), True)
            yield "one-cosigner-change", t
        # n-1 keys (drop a cosigner) / a change output with fewer named keys than cosigners
        if n >= 2:
            t = cp(); o = t[2][c]; o[4] = o[4][:-1]
            yield "missing-named-key-out", t
        # second change output
        t = cp()
        t[2].append(change_output(kind, m, wallet_keys(n, 1, 5), 1234))
        yield "second-change", t
        # change key that derives correctly but is not in the script
        t = cp(); o = t[2][c]; pb = o[4][0]
        cidx = [k for k in range(n) if cosigner(k)[0] == pb[2]][0]
        sec = derive_traverse(cosigner(cidx)[2], [1, 9])
        o[4][0] = [sec, sec, pb[2], key_path(1, 9)]
        yield "key-not-in-script-out", t
    # ---- inputs
    t = cp(); i = t[1][r.randrange(n_in)]
    fs = msig_cmds(m, [k[0] for k in _foreign_keys(n)])
    if kind == "p2sh":
        i[4] = [fs]
    else:
        i[5] = [fs]
    yield "foreign-in-script", t
    t = cp(); t[1][r.randrange(n_in)][6][r.randrange(n)][2] = ctx.rbytes(4)
    yield "foreign-xfp-in", t
    t = cp(); pb = t[1][r.randrange(n_in)][6][r.randrange(n)]; pb[3] = pb[3][:-1] + [pb[3][-1] + 1]
    yield "wrong-path-in", t
    t = cp(); t[3][r.randrange(n)][1] = cosigner(10)[2]
    yield "foreign-xpub", t
    t = cp(); i = t[1][r.randrange(n_in)]; pb = i[6][0]
    cidx = [k for k in range(n) if cosigner(k)[0] == pb[2]][0]
    sec = derive_traverse(cosigner(cidx)[2], [0, 9])
    i[6][0] = [sec, sec, pb[2], key_path(0, 9)]
    yield "key-not-in-script-in", t
    if n >= 2:
        t = cp(); i = t[1][r.randrange(n_in)]; i[6] = i[6][:-1]
        yield "missing-named-key-in", t
    k = r.randrange(n_in)
    if sc[1][k][2]:
        # altered previous transaction: the amount of the spent output / another output
        t = cp(); i = t[1][k]

        def bump(tx):
            tx.tx_outs[i[1]].amount += 100000
        _retx(i, bump)
        i[7] = [i[7][0] + 100000]
        if i[3]:
            i[3][0][0] += 100000
        yield "amount-nonwit", t
        t = cp(); i = t[1][k]

        def other(tx):
            tx.version += 1
        _retx(i, other)
        yield "prev-tx-altered", t
        t = cp(); i = t[1][k]; i[0] = ctx.rbytes(32)
        yield "outpoint-txid", t
        if len(sc[1][k][2][0][1]) > 1:
            t = cp(); i = t[1][k]; i[1] = (i[1] + 1) % len(i[2][0][1])
            yield "outpoint-index", t
    if sc[1][k][3] and not sc[1][k][2]:
        t = cp(); i = t[1][k]; i[3][0][0] += 100000; i[7] = [i[3][0][0]]
        yield "amount-wit", t
    if sc[1][k][3] and sc[1][k][2]:
        t = cp(); i = t[1][k]; i[3][0][0] += 100000; i[7] = [i[3][0][0]]
        yield "both-utxo-amount", t
        t = cp(); i = t[1][k]; i[3][0][1] = p2wsh_of(fs) if kind != "p2sh" else p2sh_of(fs)
        if kind == "p2sh":
            i[4] = [fs]
        else:
            i[5] = [fs]
        yield "both-utxo-script", t
    if n >= 2 and n_in >= 2:
        # a second input from a wallet with another threshold (consistent UTXO)
        t = cp()
        m2 = m + 1 if m < n else m - 1
        old = t[1][1]
        utxo = "both" if old[2] and old[3] else ("nonwit" if old[2] else "wit")
        t[1][1] = make_input(ctx, kind, m2, wallet_keys(n, 0, 1), old[7][0], utxo)
        yield "quorum-in", t
    # ---- shapes the validation does not (yet) look at
    if c is not None and kind != "p2sh" and n >= 2:
        t = cp(); o = t[2][c]; ws = o[3][0]
        evil = [ws[0]] + ws[1:-2] + [0x6d] * ((n + 1) // 2) + ([0x75] if (n + 1) % 2 else []) + \
               [0x51] + [k[0] for k in _foreign_keys(n)] + [ws[-2], 174]
        _set_out_script(o, kind, evil, True)
        yield "wsh-extra-cmds", t
    if c is not None and kind != "p2sh" and not sc[2][c][2]:
        t = cp(); o = t[2][c]
        red = [0x61, o[1][1], 0x75, b"\x02" + b"\x22" * 32, 0xac]
        o[2] = [red]; o[1] = p2sh_of(red)
        yield "nested-redeem", t
        t = cp(); o = t[2][c]; o[1] = [0x51, o[1][1]]
        yield "p2tr-change", t
    if c is not None and kind == "p2sh" and n >= 2:
        t = cp(); o = t[2][c]
        _set_out_script(o, kind, o[2][0][:-2] + [0x50 + (n - 1), 174], True)
        yield "p2sh-opn", t
    if kind != "p2sh" and sc[1][0][2] and not sc[1][0][3] and n >= 2:
        # every input claims another threshold with the same keys (the scriptPubKeys do not commit to
        # these scripts); the change output really is such a wallet
        t = cp()
        m2 = m + 1 if m < n else m - 1
        for i in t[1]:
            i[5] = [[0x50 + m2] + i[5][0][1:]]
        if c is not None:
            o = t[2][c]
            _set_out_script(o, kind, msig_cmds(m2, [p[1] for p in o[4]]), True)
        yield "foreign-wscript-nonwit", t
    if kind != "p2sh" and sc[1][0][3]:
        # a foreign script in the redeem_script slot of a native segwit input (no witness script)
        t = cp(); i = t[1][0]
        i[4] = [fs]; i[5] = []
        yield "script-in-redeem-slot", t
    if kind == "p2sh" and sc[1][0][2] and not sc[1][0][3]:
        t = cp(); i = t[1][0]
        amount = i[7][0] + 100000
        i[3] = [[amount, i[2][0][1][i[1]][1]]]; i[2] = []; i[7] = [amount]
        yield "p2sh-witness-utxo", t
    # fixed defect F-C11-no-utxo-record (786fa3c): no input carries a UTXO record - tx_in._value is what
    # tx_in.value() caches after fetching the previous transaction - and (n >= 2) every input claims another
    # threshold with the genuine keys; the "change" output really is such a script.  Nothing could be compared
    # with the spent scriptPubKey; the PSBT was summarised with the claimed threshold.
    t = cp()
    m2 = (m + 1 if m < n else m - 1) if n >= 2 else m
    for i in t[1]:
        i[2] = []; i[3] = []
        if kind == "p2sh":
            i[4] = [[0x50 + m2] + i[4][0][1:]]
        else:
            i[5] = [[0x50 + m2] + i[5][0][1:]]
    if c is not None:
        o = t[2][c]
        _set_out_script(o, kind, msig_cmds(m2, [p[1] for p in o[4]]), True)
    yield "no-utxo-record", t
    # the same on ONE input only, everything else genuine
    if n_in >= 2:
        t = cp(); i = t[1][r.randrange(n_in)]; i[2] = []; i[3] = []
        yield "no-utxo-record-one-input", t


# ---------------------------------------------------------------- property predicates
def p_tamper_rejected(kind, sc):
    """a tampered PSBT must raise instead of being summarised"""
    try:
        d = i_describe(sc)
    except AssertionError:
        raise
    except Exception:
        return None
    return "tampering %s was summarised: fee=%d in=%d spend=%d change=%d flags=%s" % (
        kind.decode(), d[0], d[1], d[3], d[4], [o[1] for o in d[9]])


def p_honest_summary(sc, m, n):
    d = i_describe(sc)
    fee, tin, tout, spend, change, saddr, caddr, batch, ins, outs = d
    vals = [i[7][0] for i in sc[1]]
    amts = [o[0] for o in sc[2]]
    if fee != sum(vals) - sum(amts) or tin != sum(vals) or tout != sum(amts):
        return "fee/total arithmetic: %r" % (d[:5],)
    if spend + change + fee != tin:
        return "spend + change + fee != inputs: %r" % (d[:5],)
    if [o[0] for o in outs] != amts:
        return "outputs not listed one by one"
    if sum(a for a, c in outs if not c) != spend or sum(a for a, c in outs if c) != change:
        return "an output is not counted exactly once as spend or change"
    want = [1 if o[4] else 0 for o in sc[2]]
    if [int(c) for _, c in outs] != want:
        return "change flags %r, expected %r" % ([c for _, c in outs], want)
    if any((a, b) != (m, n) for a, b, _ in ins) or [v for _, _, v in ins] != vals:
        return "inputs quorum/sats %r" % (ins,)
    chg = [o for o in sc[2] if o[4]]
    if caddr != ([chg[0][1]] if chg else []):
        return "change address is not the change output's"
    sp = [o for o in sc[2] if not o[4]]
    if saddr != ([sp[0][1]] if len(sp) == 1 else []) or bool(batch) != (len(sp) > 1):
        return "spend address / batch flag"
    return None


def p_rebuild_same(sc, raw):
    """the scenario conversion is faithful: the PSBT parsed from bytes and the objects rebuilt from the
    scenario serialize identically and are summarised identically"""
    p = PSBT.parse(BytesIO(raw), network=NETS[sc[0]])
    q, hmap = build(sc)
    q.tx_obj.version, q.tx_obj.locktime = p.tx_obj.version, p.tx_obj.locktime   # not part of a scenario
    if q.serialize() != raw:
        return "rebuilt PSBT serializes differently"
    a = summary(p.describe_basic_multisig(hdpubkey_map=hmap))
    if a != i_describe(sc):
        return "summaries differ"
    b = summary(p.describe_basic_multisig())          # hdpubkey_map taken from the global xpubs
    if b != a:
        return "summary with the PSBT's own xpubs differs"
    return None


# ---- ONE PSBT object described repeatedly, tampered with in place between the calls
# The declared (constructor) fields of every class of the object graph; the in-place editor writes these and
# nothing else, so anything an object has memoised (a description, a quorum, a script hash, an address, a
# derived key …) stays where it is and must not influence the next verdict.
_FIELDS = {
    "PSBT": ("tx_obj", "psbt_ins", "psbt_outs", "hd_pubs", "extra_map", "network"),
    "PSBTIn": ("tx_in", "prev_tx", "prev_out", "sigs", "hash_type", "redeem_script", "witness_script", "named_pubs",
               "script_sig", "witness", "extra_map"),
    "PSBTOut": ("tx_out", "redeem_script", "witness_script", "named_pubs", "extra_map"),
    "Tx": ("version", "tx_ins", "tx_outs", "locktime", "network", "segwit"),
    "StubTx": ("_h", "tx_outs"),
    "TxIn": ("prev_tx", "prev_index", "script_sig", "sequence", "witness", "_value", "_script_pubkey"),
    "TxOut": ("amount", "script_pubkey"),
    "Script": ("commands", "raw"),
    "Witness": ("items",),
}


def _fields(o):
    for cls in type(o).__mro__:
        if cls.__name__ in _FIELDS:
            return _FIELDS[cls.__name__]
    return None


def graft(dst, src, depth):
    """Give every declared field of dst the value it has in src, editing dst IN PLACE down to `depth` levels of
    objects (below that src's sub-objects are assigned); lists and dicts are always edited in place."""
    if isinstance(dst, list) and isinstance(src, list):
        dst[:] = [graft(dst[i], y, depth) if i < len(dst) else y for i, y in enumerate(src)]
        return dst
    if isinstance(dst, dict) and isinstance(src, dict):
        new = dict(src)
        dst.clear()
        dst.update(new)
        return dst
    f = _fields(dst)
    if f is None or type(dst) is not type(src) or depth <= 0:
        return src
    for name in f:
        setattr(dst, name, graft(getattr(dst, name, None), getattr(src, name, None), depth - 1))
    return dst


def _dump(o):
    """declared fields of an object graph as a plain value (to compare the edited object with a fresh one)"""
    if isinstance(o, (list, tuple)):
        return [_dump(x) for x in o]
    if isinstance(o, dict):
        return [[k, _dump(o[k])] for k in sorted(o)]
    if isinstance(o, NamedHDPublicKey):
        return ["hd", HDPublicKey.raw_serialize(o), o.raw_path]
    if isinstance(o, NamedPublicKey):
        return ["pub", o.sec(), o.raw_path]
    f = _fields(o)
    if f is not None:
        return [type(o).__name__] + [_dump(getattr(o, name, None)) for name in f]
    return o


_MUL = {}


class _memo_mul:
    """while a reuse sequence runs, k * P (pure-Python secp256k1, the cost of every BIP32 step) is memoised on
    (P, k mod N): the eight descriptions of one sequence repeat the same derivations.  Pure function, same
    results; nothing above the scalar multiplication is memoised."""

    def __enter__(self):
        from buidl.ecc import N, S256Point
        self.cls, self.orig = S256Point, S256Point.__rmul__
        orig = self.orig

        def rmul(pt, k):
            if pt.x is None or not isinstance(k, int):
                return orig(pt, k)
            key = (pt.x.num, pt.y.num, k % N)
            if key not in _MUL:
                if len(_MUL) > 4096:
                    _MUL.clear()
                res = orig(pt, k)
                _MUL[key] = None if res.x is None else (res.x.num, res.y.num)
                return res
            v = _MUL[key]
            return S256Point(None, None) if v is None else S256Point(v[0], v[1])

        S256Point.__rmul__ = rmul
        return self

    def __exit__(self, *a):
        self.cls.__rmul__ = self.orig
        return False


def _describe_obj(p, hmap):
    try:
        return summary(p.describe_basic_multisig(hdpubkey_map=hmap))
    except AssertionError:
        raise
    except Exception:  # noqa
        return None


def p_describe_reuse(scs, mode):
    """ONE PSBT object is taken through the scenarios scs[0], scs[1], … by in-place edits (mode 0: the fields of
    the PSBT / PSBTIn / PSBTOut objects are assigned; mode 1: the existing TxIn / TxOut / Script objects and the
    dictionaries inside them are rewritten) and described after every step (twice at the first and the last):
    every verdict — the summary or the refusal — must be the verdict on freshly built objects in that state.
    The hdpubkey_map objects are kept as long as the scenario's map does not change."""
    with _memo_mul():
        return _describe_reuse(scs, mode)


def _describe_reuse(scs, mode):
    depth = 9 if mode else 2
    P, hmap = build(scs[0])
    cur_map = scs[0][3]
    for step, sc in enumerate(scs):
        Q, hq = build(sc)
        ref = _dump(Q)
        if step:
            graft(P, Q, depth)
        if sc[3] != cur_map:
            hmap, cur_map = hq, sc[3]
        if _dump(P) != ref:
            return f"step {step}: harness: the object edited in place is not in the state of the scenario"
        try:
            want = i_describe(sc)
        except AssertionError:
            raise
        except Exception:  # noqa
            want = None
        for rep in range(2 if step in (0, len(scs) - 1) else 1):
            got = _describe_obj(P, hmap)
            if got != want:
                def show(v):
                    return "refused" if v is None else "fee=%d in=%d spend=%d change=%d flags=%s" % (
                        v[0], v[1], v[3], v[4], [o[1] for o in v[9]])
                return (f"step {step} call {rep}: the reused object is {show(got)}, a fresh object in the same "
                        f"state is {show(want)}")
            if _dump(P) != ref:
                return f"step {step}: describe_basic_multisig changed the PSBT it describes"
    return None


# ---------------------------------------------------------------- ONE element wrong, at EVERY position
# The checks of the summary are loops over collections (the derivation records of a map against the keys of the
# attached script, the records against the declared xpubs, the inputs against their UTXOs, the outputs).  A loop
# that looks at the first / the last / any one element only is invisible to a tampering that makes EVERY element
# wrong, or that always spoils the first one.  Here exactly ONE element of a collection is wrong (or exactly one is
# right), its position runs over all positions, and the map entries come in every order (the order of the records
# in the byte stream is the sender's choice; the library's own serializer sorts them, a hand-built PSBT need not).
#
# Independent BIP174 / transaction / script encoder (nothing of the library): a scenario -> PSBT bytes with the
# records in the scenario's order.
import itertools as _it


def r_varint(n):
    if n < 0xfd:
        return bytes([n])
    if n < 0x10000:
        return b"\xfd" + n.to_bytes(2, "little")
    if n < 0x100000000:
        return b"\xfe" + n.to_bytes(4, "little")
    return b"\xff" + n.to_bytes(8, "little")


def r_varstr(b):
    return r_varint(len(b)) + b


def r_kv(key, value):
    return r_varstr(key) + r_varstr(value)


def r_script(cmds):
    """raw script bytes (no length prefix): an int is an opcode, bytes are pushed minimally"""
    out = b""
    for c in cmds:
        if isinstance(c, int):
            out += bytes([c])
        elif len(c) <= 75:
            out += bytes([len(c)]) + c
        elif len(c) <= 255:
            out += b"\x4c" + bytes([len(c)]) + c
        else:
            out += b"\x4d" + len(c).to_bytes(2, "little") + c
    return out


def r_h256(b):
    return hashlib.sha256(hashlib.sha256(b).digest()).digest()


def r_tx(version, ins, outs, locktime):
    """legacy serialisation; ins = [(txid in display order, index, sequence)], outs = [(amount, raw script)]"""
    out = version.to_bytes(4, "little") + r_varint(len(ins))
    for txid, idx, seq in ins:
        out += txid[::-1] + idx.to_bytes(4, "little") + b"\x00" + seq.to_bytes(4, "little")
    out += r_varint(len(outs))
    for amount, spk in outs:
        out += amount.to_bytes(8, "little") + r_varstr(spk)
    return out + locktime.to_bytes(4, "little")


def r_prev_tx(pouts):
    return r_tx(1, [(b"\x5a" * 32, 1, 0xfffffffe)], [(a, r_script(c)) for a, c in pouts], 0)


def r_psbt(sc):
    """PSBT bytes of a scenario; the previous transactions are re-encoded here (their txids change with that: an
    outpoint that named the attached previous transaction names the re-encoded one, any other outpoint is kept)"""
    net, ins, outs, hdmap, hdpubs, _ = sc
    tx_ins, maps = [], []
    for txid, idx, nonwit, wit, redeem, witness, pubs, value in ins:
        m = b""
        if nonwit:
            h, pouts, raw = nonwit[0]
            mine = r_prev_tx(pouts)
            if txid == h:
                txid = r_h256(mine)[::-1]
            m += r_kv(b"\x00", mine)
        if wit:
            m += r_kv(b"\x01", wit[0][0].to_bytes(8, "little") + r_varstr(r_script(wit[0][1])))
        for slot, typ in ((redeem, b"\x04"), (witness, b"\x05")):
            if slot:
                if r_script(slot[0]) != raw_script(slot[0]):
                    raise AssertionError("harness: reference script encoder disagrees with Script.raw_serialize")
                m += r_kv(typ, r_script(slot[0]))
        for key, sec, xfp, comps in pubs:
            m += r_kv(b"\x06" + sec, xfp + b"".join(c.to_bytes(4, "little") for c in comps))
        maps.append(m + b"\x00")
        tx_ins.append((txid, idx, 0xffffffff))
    tx_outs = []
    for amount, cmds, redeem, witness, pubs in outs:
        m = b""
        if redeem:
            m += r_kv(b"\x00", r_script(redeem[0]))
        if witness:
            m += r_kv(b"\x01", r_script(witness[0]))
        for key, sec, xfp, comps in pubs:
            m += r_kv(b"\x02" + sec, xfp + b"".join(c.to_bytes(4, "little") for c in comps))
        maps.append(m + b"\x00")
        tx_outs.append((amount, r_script(cmds)))
    g = r_kv(b"\x00", r_tx(2, tx_ins, tx_outs, 0))
    for xfp, comps, xid in hdpubs:
        g += r_kv(b"\x01" + xid, xfp + b"".join(c.to_bytes(4, "little") for c in comps))
    return b"psbt\xff" + g + b"\x00" + b"".join(maps)


def honest_expect(sc):
    """[fee, inputs, spend, change, change flags] of an honest scenario, from the scenario alone"""
    tin = sum(i[7][0] for i in sc[1])
    change = sum(o[0] for o in sc[2] if o[4])
    spend = sum(o[0] for o in sc[2] if not o[4])
    return [[tin - spend - change, tin, spend, change, [1 if o[4] else 0 for o in sc[2]]]]


def p_bytes_review(raw, net, hdmap, expect):
    """What a cosigner does with PSBT BYTES it is asked to sign: PSBT.parse, then describe_basic_multisig with its
    own record of the cosigner xpubs.  expect = [] : the bytes carry a tampering and must be refused (by the parser
    or by the summary); expect = [[fee, inputs, spend, change, flags]] : an honest PSBT, must be summarised so."""
    with _memo_mul():
        try:
            if expect or sum(raw) % 4 == 0:
                import base64
                p = PSBT.parse_base64(base64.b64encode(raw).decode(), network=NETS[net])     # the other way in
            else:
                p = PSBT.parse(BytesIO(raw), network=NETS[net])
            hmap = {xfp.hex(): HDPublicKey.raw_parse(BytesIO(xid), network=NETS[net]) for xfp, xid, depth in hdmap}
            d = p.describe_basic_multisig(hdpubkey_map=hmap)
        except AssertionError:
            raise
        except Exception as e:  # noqa
            return None if not expect else "honest PSBT bytes refused: %r" % (e,)
    got = [d["tx_fee_sats"], d["total_input_sats"], d["spend_sats"], d["change_sats"],
           [1 if o["is_change"] else 0 for o in d["outputs_desc"]]]
    if not expect:
        return "tampered PSBT bytes were summarised: fee=%d in=%d spend=%d change=%d flags=%s" % tuple(got)
    if got != expect[0]:
        return "summary %r, expected %r" % (got, expect[0])
    if got[2] + got[3] + got[0] != got[1] or d["total_output_sats"] != got[2] + got[3]:
        return "spend + change + fee != inputs"
    return None


def p_position_rejected(kind, sc):
    """tamper_rejected for the one-element-wrong catalogue (scalar multiplications memoised: the same keys are
    re-derived for every position and order)"""
    with _memo_mul():
        return p_tamper_rejected(kind, sc)


def p_order_summary(sc, m, n):
    """an honest PSBT whose map entries come in another order is summarised like any honest PSBT"""
    with _memo_mul():
        return p_honest_summary(sc, m, n)


def p_default_map(sc_a, sc_b):
    """describe_basic_multisig() WITHOUT the hdpubkey_map argument (its default is a dict literal): PSBT A carries
    its cosigner xpubs itself and is summarised; PSBT B (the same or another wallet's coins, NO xpubs inside) described next
    must be refused - nothing of A's cosigners may be left in the default; then A again, as before."""
    with _memo_mul():
        pa, _ = build(sc_a)
        first = summary(pa.describe_basic_multisig())
        pb, _ = build(sc_b)
        try:
            pb.describe_basic_multisig()
        except AssertionError:
            raise
        except Exception:  # noqa
            pass
        else:
            return "a PSBT without xpubs was summarised without hdpubkey_map after another PSBT had been described"
        pa2, _ = build(sc_a)
        if summary(pa2.describe_basic_multisig()) != first or summary(pa.describe_basic_multisig()) != first:
            return "the same PSBT is summarised differently the second time"
    return None


def _orders(n, full=True):
    ps = list(_it.permutations(range(n)))
    if n <= 3 and full:
        return ps
    rot = [tuple((s + k) % n for k in range(n)) for s in range(n)]
    return rot if not full or n <= 3 else rot + [tuple(reversed(p)) for p in rot]


def _set_in_script(i, script):
    """attach `script` to an input AND make the spent output commit to it (the previous transaction is rebuilt,
    the outpoint follows)"""
    p2sh = bool(i[4])
    spk = p2sh_of(script) if p2sh else p2wsh_of(script)
    if p2sh:
        i[4] = [script]
    else:
        i[5] = [script]
    if i[2]:
        def edit(tx):
            tx.tx_outs[i[1]].script_pubkey = spk_obj(spk)
        _retx(i, edit)
        i[0] = i[2][0][0]
    if i[3]:
        i[3][0][1] = spk


def _loc(t, where):
    """(record list holder, index of the record list) of a location: ("in", k) or ("out", k)"""
    return (t[1][where[1]], 6) if where[0] == "in" else (t[2][where[1]], 4)


def _loc_set_script(t, where, script):
    if where[0] == "in":
        _set_in_script(t[1][where[1]], script)
    else:
        _set_out_script(t[2][where[1]], None, script, True)


def _loc_script(t, where):
    x = t[1][where[1]] if where[0] == "in" else t[2][where[1]]
    return ((x[5] or x[4]) if where[0] == "in" else (x[3] or x[2]))[0]


def _explicit_script(m, keys):
    return [0x50 + m] + list(keys) + [0x50 + len(keys), 174]


def position_tampers(ctx, sc, where, full):
    """(kind, scenario): at the location `where` (an input or the change output of the honest scenario sc) exactly
    one element is wrong / exactly one is right; g = which one; the records in every order."""
    m, n = _quorum(sc)
    branch = 0 if where[0] == "in" else 1
    tag = "%s%d" % where
    holder, slot = _loc(sc, where)
    genuine = [list(p) for p in holder[slot]]
    gsecs = [p[1] for p in genuine]
    foreign = [k[0] for k in _foreign_keys(n, 7)]
    cos_of = {cosigner(c)[0]: c for c in range(n)}

    def variants(kind, make, orders):
        for g in range(n):
            for oi, perm in enumerate(orders):
                t = _copy.deepcopy(sc)
                pubs = make(t, g, oi)
                if pubs is None:
                    continue
                h, s = _loc(t, where)
                h[s] = [pubs[k] for k in perm]
                yield "%s@%s" % (kind, tag), t

    # ---- the keys of the attached (and committed-to) script vs the records: decided by PSBTIn/PSBTOut.validate
    def one_genuine(t, g, oi):
        keys = list(foreign[:n - 1])
        keys.insert((g + oi) % n, gsecs[g])          # the genuine key at every place of the script
        _loc_set_script(t, where, _explicit_script(m, keys))
        return genuine

    def one_genuine_sorted(t, g, oi):
        _loc_set_script(t, where, msig_cmds(m, [gsecs[g]] + foreign[:n - 1]))
        return genuine

    def one_foreign(t, g, oi):
        keys = sorted(gsecs)
        keys[keys.index(gsecs[g])] = foreign[0]
        if oi % 2:
            keys = sorted(keys)
        _loc_set_script(t, where, _explicit_script(m, keys))
        return genuine

    def one_duplicate(t, g, oi):
        keys = sorted(gsecs)
        keys[keys.index(gsecs[g])] = gsecs[(g + 1) % n]   # a neighbour's key twice, cosigner g's key not at all
        _loc_set_script(t, where, _explicit_script(m, keys))
        return genuine

    def one_pub_elsewhere(t, g, oi):
        pubs = [list(p) for p in genuine]
        xid = cosigner(cos_of[genuine[g][2]])[2]
        sec = derive_traverse(xid, [branch, 9])
        pubs[g] = [sec, sec, genuine[g][2], key_path(branch, 9)]     # derives correctly, is not in the script
        return pubs

    full_orders = _orders(n, full)
    yield from variants("one-genuine-key-in-script", one_genuine, full_orders)
    yield from variants("one-genuine-key-in-sorted-script", one_genuine_sorted, _orders(n, False))
    yield from variants("one-foreign-key-in-script", one_foreign, full_orders)
    yield from variants("one-duplicate-key-in-script", one_duplicate, _orders(n, False))
    yield from variants("one-record-not-in-script", one_pub_elsewhere, full_orders)

    # ---- one record that does not derive from its declared xpub: decided by the re-derivation loops
    rot = _orders(n, False)

    def one_wrong_path(t, g, oi):
        pubs = [list(p) for p in genuine]
        pubs[g][3] = pubs[g][3][:-1] + [pubs[g][3][-1] + 1]
        return pubs

    def one_wrong_branch(t, g, oi):
        pubs = [list(p) for p in genuine]
        pubs[g][3] = pubs[g][3][:-2] + [1 - pubs[g][3][-2], pubs[g][3][-1]]
        return pubs

    def one_foreign_xfp(t, g, oi):
        pubs = [list(p) for p in genuine]
        pubs[g][2] = hashlib.sha256(b"xfp" + pubs[g][2]).digest()[:4]
        return pubs

    def one_swapped_xfp(t, g, oi):
        # record g claims the neighbour's fingerprint (declared, but the key is not the neighbour's)
        pubs = [list(p) for p in genuine]
        pubs[g][2] = genuine[(g + 1) % n][2]
        return pubs

    def one_cosigner_twice(t, g, oi):
        # cosigner g's key is replaced by a second key of the neighbour (well derived, in the committed script)
        pubs = [list(p) for p in genuine]
        nb = genuine[(g + 1) % n]
        sec = derive_traverse(cosigner(cos_of[nb[2]])[2], [branch, 11])
        pubs[g] = [sec, sec, nb[2], key_path(branch, 11)]
        _loc_set_script(t, where, msig_cmds(m, [p[1] for p in pubs]))
        return pubs

    yield from variants("one-wrong-index", one_wrong_path, rot)
    yield from variants("one-wrong-branch", one_wrong_branch, rot)
    yield from variants("one-foreign-xfp", one_foreign_xfp, rot)
    yield from variants("one-swapped-xfp", one_swapped_xfp, rot)
    if where[0] == "out":
        yield from variants("one-cosigner-twice", one_cosigner_twice, rot)


def hdmap_position_tampers(ctx, sc):
    """one declared xpub is foreign (fingerprint kept), at every place of the hdpubkey_map"""
    n = len(sc[3])
    for g in range(n):
        for perm in _orders(n, False):
            t = _copy.deepcopy(sc)
            t[3][g][1] = cosigner(10)[2]
            t[3] = [t[3][k] for k in perm]
            yield "one-foreign-xpub@map", t


# ---- a derivation record whose path length relative to the DECLARED xpub is at the edge
# The re-derivation check reads `hdpub.traverse(ltrim_path(record path, depth of the declared xpub))`.  A record
# whose path has exactly as many components as the xpub is deep names the account key itself (no child index below
# the declared xpub): no wallet derives an address there, such a PSBT has to be refused - whatever key the record
# carries, in particular when it carries the xpub's OWN key and the committed script is made of the account keys.
EXTRA_BELOW = [3, 1, 4, 1]


def _declared(sc):
    """fingerprint -> (xpub_id, depth) of the declared cosigner xpubs (hdpubkey_map, else the global xpubs)"""
    d = {xfp: (xid, depth) for xfp, xid, depth in sc[3]}
    if not d:
        d = {xfp: (xid, len(comps)) for xfp, comps, xid in sc[4]}
    return d


def own_key(xid):
    """the public key inside a serialized xpub (its last 33 bytes)"""
    return xid[-33:]


def deep_wallet(ctx, kind, m, n, utxo):
    """an honest wallet whose cosigner xpubs are declared one level deeper (m/45'/0, depth 2): the coins at
    m/45'/0/j, the change at m/45'/0/7"""
    r = ctx.rng
    sc = honest(ctx, kind, m, n, 1, [r.randrange(600, 10 ** 7)], r.randrange(600, 10 ** 8), utxo=utxo)
    c = _chg(sc)
    sc[2][c] = change_output(kind, m, wallet_keys(n, 0, 7), sc[2][c][0])
    hdmap = []
    for k in range(n):
        xfp, acct, xid = cosigner(k)
        ch = acct.child(0)
        if ch.depth != 2:
            raise AssertionError("harness: depth of the deeper xpub")
        xid2 = ch.raw_serialize()
        _XPUBS.setdefault(xid2, ch)
        hdmap.append([xfp, xid2, 2])
    return with_table([sc[0], sc[1], sc[2], hdmap, [], []])


def edge_path_tampers(ctx, sc, where):
    """(kind, scenario, accepted): at the location `where` ONE record (position g; also ALL records) has a path with
    exactly depth / depth-1 / depth+many components relative to its declared xpub, with the xpub's own key, the
    genuine key or the key really derived at the stated path; records in rotated orders.  accepted: the record
    is a key derived BELOW the xpub at the stated path and in the committed script (an honest, only deeper, wallet
    key) - everything else has to be refused."""
    m, n = _quorum(sc)
    tag = "%s%d" % where
    holder, slot = _loc(sc, where)
    genuine = [list(p) for p in holder[slot]]
    decl = _declared(sc)
    rot = _orders(n, False)

    def rec(p, key=None, path=None):
        q = list(p)
        if key is not None:
            q[0] = q[1] = key
        if path is not None:
            q[3] = list(path)
        return q

    def make(g, what):
        p = genuine[g]
        xid, depth = decl[p[2]]
        if what == "exact-depth-own-key":
            return rec(p, own_key(xid), p[3][:depth]), True
        if what == "exact-depth-genuine-key":
            return rec(p, None, p[3][:depth]), False
        if what == "shorter-genuine-key":
            return rec(p, None, p[3][:depth - 1]), False
        if what == "shorter-own-key":
            return rec(p, own_key(xid), p[3][:depth - 1]), True
        if what == "longer-genuine-key":
            return rec(p, None, p[3] + EXTRA_BELOW), False
        if what == "longer-own-key":
            return rec(p, own_key(xid), p[3] + EXTRA_BELOW), True
        if what == "longer-derived-key":
            return rec(p, derive_traverse(xid, p[3][depth:] + EXTRA_BELOW), p[3] + EXTRA_BELOW), True
        raise AssertionError(what)

    def scen(pubs, rescript, perm):
        t = _copy.deepcopy(sc)
        if rescript:
            _loc_set_script(t, where, msig_cmds(m, [p[1] for p in pubs]))
        h, s = _loc(t, where)
        h[s] = [pubs[k] for k in perm]
        return t

    for what in ("exact-depth-own-key", "exact-depth-genuine-key", "shorter-genuine-key", "shorter-own-key",
                 "longer-genuine-key", "longer-own-key", "longer-derived-key"):
        ok = what == "longer-derived-key"
        for g in range(n):
            pubs = [list(p) for p in genuine]
            pubs[g], rescript = make(g, what)
            for perm in (rot if what == "exact-depth-own-key" else [rot[g % len(rot)]]):
                yield "one-%s@%s" % (what, tag), scen(pubs, rescript, perm), ok
        # every record so (the script of the account keys themselves, stated path = the xpubs' own path)
        if what in ("exact-depth-own-key", "exact-depth-genuine-key", "longer-derived-key"):
            made = [make(g, what) for g in range(n)]
            for perm in (rot if what == "exact-depth-own-key" else rot[:1]):
                yield "all-%s@%s" % (what, tag), scen([x[0] for x in made], made[0][1], perm), ok


# the TEXT of a record's path (NamedPublicKey.root_path, a str attribute of a parsed record) edited in place: empty
# components cannot be written in a binary record, but a path text can carry them (double slash, trailing slash)
def path_texts(comps, depth):
    """(text, strict) for a record whose binary path is comps under an xpub of that depth.  strict: the text
    with its empty components dropped has NO component below the xpub (must be refused); otherwise it is the
    honest path written with empty components (refused, or read leniently as the honest path)."""
    def txt(cs):
        return path_str(cs)
    head, tail = comps[:depth], comps[depth:]
    return [(txt(head) + "/", True), (txt(head) + "//", True), (txt(head) + "/ ", True),
            (txt(head) + "/" + txt(tail)[1:], False),          # m/45'//0/3
            (txt(comps) + "/", False),                         # m/45'/0/3/
            (txt(comps[:-1]) + "/" + txt(comps[-1:])[1:], False),   # m/45'/0//3
            ("m/" + txt(comps)[1:], False)]                    # m//45'/0/3


def p_path_text_edge(sc, loc, k, key, text, strict):
    """The rebuilt objects of scenario sc; the path TEXT of one derivation record (location loc/k, dict key `key`) is
    replaced by `text`, which contains an empty component.  strict = 1: the text names no component below the
    declared xpub - must be refused.  strict = 0: the text is the record's genuine path with an empty component -
    refused, or summarised exactly as the honest PSBT."""
    with _memo_mul():
        p, hmap = build(sc)
        holder = (p.psbt_ins if loc == 0 else p.psbt_outs)[k]
        holder.named_pubs[key].root_path = text.decode()
        try:
            d = summary(p.describe_basic_multisig(hdpubkey_map=hmap))
        except AssertionError:
            raise
        except Exception:  # noqa
            return None
    got = [d[0], d[1], d[3], d[4], [1 if o[1] else 0 for o in d[9]]]
    if strict:
        return "record with path text %r (no component below the declared xpub) was summarised: fee=%d in=%d " \
               "spend=%d change=%d flags=%s" % ((text.decode(),) + tuple(got))
    if got != honest_expect(sc)[0]:
        return "path text %r: summary %r, honest summary %r" % (text.decode(), got, honest_expect(sc)[0])
    return None


def input_position_tampers(ctx, sc):
    """ONE input of several is wrong (UTXO, amount, script, threshold, records), at every input position"""
    kind = _kind(sc)
    m, n = _quorum(sc)
    fs = msig_cmds(m, [k[0] for k in _foreign_keys(n)])
    for k in range(len(sc[1])):
        def cp():
            t = _copy.deepcopy(sc)
            return t, t[1][k]
        tag = "@in%d" % k
        if sc[1][k][2]:
            t, i = cp()
            _retx(i, lambda tx: setattr(tx.tx_outs[i[1]], "amount", tx.tx_outs[i[1]].amount + 100000))
            i[7] = [i[7][0] + 100000]
            if i[3]:
                i[3][0][0] += 100000
            yield "one-amount-nonwit" + tag, t
            t, i = cp()
            _retx(i, lambda tx: setattr(tx, "version", tx.version + 1))
            yield "one-prev-tx-altered" + tag, t
            t, i = cp(); i[0] = hashlib.sha256(i[0]).digest()
            yield "one-outpoint-txid" + tag, t
        if sc[1][k][3] and sc[1][k][2]:
            t, i = cp(); i[3][0][0] += 100000; i[7] = [i[3][0][0]]
            yield "one-both-utxo-amount" + tag, t
        if sc[1][k][3]:
            t, i = cp(); i[3][0][1] = p2sh_of(fs) if kind == "p2sh" else p2wsh_of(fs)
            if sc[1][k][2]:
                yield "one-both-utxo-script" + tag, t
            else:
                yield "one-wit-utxo-other-script" + tag, t
        t, i = cp()
        i[4 if kind == "p2sh" else 5] = [fs]
        yield "one-foreign-in-script" + tag, t
        t, i = cp(); i[2] = []; i[3] = []
        yield "one-no-utxo-record" + tag, t
        t, i = cp(); i[6] = i[6][1:]
        yield "one-missing-record" + tag, t
        if n >= 2:
            m2 = m + 1 if m < n else m - 1
            t, i = cp()
            _set_in_script(i, [0x50 + m2] + i[4 if kind == "p2sh" else 5][0][1:])
            yield "one-quorum-in" + tag, t
            # an input of a smaller wallet (n-1 of the cosigners), consistent UTXO
            t, i = cp()
            i[6] = i[6][:-1]
            _set_in_script(i, msig_cmds(min(m, n - 1), [p[1] for p in i[6]]))
            yield "one-smaller-wallet-in" + tag, t


def output_position_tampers(ctx, sc):
    """the (tampered) change output at every place among the outputs; a second change output at every place"""
    m, n = _quorum(sc)
    c = _chg(sc)
    kind = _kind(sc)
    chg = sc[2][c]
    rest = [o for k, o in enumerate(sc[2]) if k != c]
    foreign = [k[0] for k in _foreign_keys(n, 7)]
    for pos in range(len(rest) + 1):
        t = _copy.deepcopy(sc)
        o = _copy.deepcopy(chg)
        _set_out_script(o, kind, msig_cmds(m, [o[4][0][1]] + foreign[:n - 1]), True)
        t[2] = _copy.deepcopy(rest[:pos]) + [o] + _copy.deepcopy(rest[pos:])
        yield "mixed-change@out%d" % pos, t
        t = _copy.deepcopy(sc)
        t[2] = _copy.deepcopy(rest[:pos]) + [_copy.deepcopy(chg)] + _copy.deepcopy(rest[pos:])
        for pos2 in range(len(t[2]) + 1):
            u = _copy.deepcopy(t)
            u[2].insert(pos2, change_output(kind, m, wallet_keys(n, 1, 5), 1234))
            yield "second-change@out%d,%d" % (pos, pos2), u
            u = _copy.deepcopy(u)
            for o in u[2]:
                if o[4]:
                    o[0] = 0                     # a change output of 0 sats is still a change output
            yield "second-change-zero-sats@out%d,%d" % (pos, pos2), u


def reordered_honest(sc):
    """the honest scenario with the records of every map (and the declared xpubs) in every order"""
    n = len(sc[1][0][6])
    for perm in _orders(n, True):
        t = _copy.deepcopy(sc)
        for i in t[1]:
            i[6] = [i[6][k] for k in perm]
        for o in t[2]:
            if o[4]:
                o[4] = [o[4][k] for k in reversed(perm)]
        if t[3]:
            t[3] = [t[3][perm[k]] for k in perm]
        t[4] = [t[4][k] for k in perm] if t[4] else []
        yield t


PROPS = {"tamper_rejected": p_tamper_rejected, "honest_summary": p_honest_summary,
         "rebuild_same": p_rebuild_same, "describe_reuse": p_describe_reuse,
         "builder_crosschecks": p_builder_crosschecks, "bytes_review": p_bytes_review,
         "position_rejected": p_position_rejected, "order_summary": p_order_summary,
         "default_map": p_default_map, "path_text_edge": p_path_text_edge}

# tamperings that the implementation is KNOWN to summarise (findings/C11.json); everything else that is
# accepted is a violation.  The structural test ties the key to the shape of the PSBT, not only to the label.
def _wit_only(sc):
    return any(i[3] and not i[2] for i in sc[1])


KNOWN = {
    # BIP174: nothing in a PSBT commits to the amount of a witness-UTXO-only input
    b"amount-wit": ("K-C11-amount", lambda sc: _wit_only(sc) and all(i[5] and not i[4] for i in sc[1])),
}


def classify(v):
    if v.get("kind") == "prop" and v.get("name") == "tamper_rejected":
        kind, sc = v["args"]
        if kind in KNOWN and KNOWN[kind][1](sc):
            return KNOWN[kind][0]
    return None


# ---------------------------------------------------------------- generators
RULE = ("Wallets: every 1 <= m <= n <= 3 (quick) / 4 (thorough), P2SH built by psbt_helper.create_multisig_psbt and by "
        "hand, P2WSH by hand with witness-only / non-witness-only / both UTXO records, P2SH-P2WSH change; 1..3 inputs, "
        "1..3 outputs, with and without change.  Every honest PSBT is checked for the arithmetic identities and the "
        "change flags, then EVERY tampering of the catalogue is applied (each must raise) and every honest and "
        "tampered PSBT is also a correspondence case for describe (verdict and summary fields); random structural "
        "mutations and an exhaustive sweep of script shapes feed validate_in / validate_out / get_quorum.  Every honest, "
        "tampered and mutated PSBT is also given to the declarative wallet relation Spec/PsbtHonest.v (op honest_spec), "
        "which has to coincide with the implementation's verdict.  create_multisig_psbt is called with honest arguments "
        "(result summarised with the stated fee / payments / change, before and after a serialisation round trip) and "
        "with one cross-checked datum altered (must raise); the same arguments and further variants (payment to the "
        "wallet's own input script, change without path_dict, the same outpoint twice, duplicate fingerprint, "
        "threshold 0 / n+1, an extra record, a record with a wrong depth, an index out of range) are correspondence "
        "cases for the builder model (op create_psbt: the returned PSBT object field by field, or the refusal).  "
        "Derivation records whose path length relative to the declared xpub (depth 1 and depth 2) is at the edge - "
        "exactly depth components (the xpub's own key / another key; one record at every position, all records), "
        "depth-1, depth+4 (genuine, own and really derived key), path texts with an empty component - for inputs and "
        "outputs, P2SH and P2WSH: refused unless the key is derived below the xpub at the stated path.")
TRUSTED = ["hashlib (sha256, ripemd160) — hash160/sha256 are universally quantified functions in the theorems",
           "HDPublicKey.child/traverse (C08) — `derive` is an abstract function in the theorems; the correspondence "
           "feeds the model the implementation's own derivation results as a lookup table",
           "Tx.hash of the previous transaction (C04) — abstract txid in the model",
           "builder model (Model/PsbtBuilder.v): HDPublicKey.parse, Tx.parse_hex, address_to_script_pubkey and "
           "_safe_get_child_hdpubkey + NamedHDPublicKey.from_hd_pub are executed by the implementation and handed to the "
           "model as data (records, previous transactions, scriptPubKeys, a derivation table)",
           "modelled, not verified: address encoding of the summary (the model returns scripts), the text fields, "
           "bip32_derivs listing, string handling of ltrim_path/is_valid_bip32_path on paths that do not come from "
           "parse_binary_path, partial-signature and final-script branches of PSBT.validate (C10)"]
ASSUMPTIONS = ["psbt_in.tx_in is tx_obj.tx_ins[i] and psbt_out.tx_out is tx_obj.tx_outs[i] (as PSBT.parse builds them)",
               "scriptPubKey objects have the class ScriptPubKey.parse assigns; scripts carry no kept raw bytes",
               "named_pubs dict key == value.sec() for the key-in-script conclusions (PSBTIn/PSBTOut.parse build it so)",
               "tx_in._value is set (PSBTIn.parse / update set it from the attached UTXO record); no network"]
BUDGET_S = {"quick": 600, "thorough": 1700}


def quorum_shapes(ctx):
    k = [b"\x02" + bytes([j]) * 32 for j in range(1, 5)]
    heads = [0, 79, 80, 81, 82, 83, 96, 97, 78, 174, 175, 255, 256, -1, k[0]]
    out = [[], [174], [k[0]], [0x51, k[0]]]
    for a in heads:
        out.append([a, 174])
        out.append([a, 175])
        for b in heads:
            for nk in (0, 1, 2, 3):
                out.append([a] + k[:nk] + [b, 174])
        out.append([a] + k[:2] + [0x52, k[3]])
        out.append([a, 0x75] + k[:2] + [0x52, 174])
    return out


def mutations(ctx, sc, count):
    r = ctx.rng
    for _ in range(count):
        t = _copy.deepcopy(sc)
        what = r.randrange(14)
        i = t[1][r.randrange(len(t[1]))]
        o = t[2][r.randrange(len(t[2]))]
        if what == 0:
            i[4], i[5] = i[5], i[4]
        elif what == 1:
            i[r.choice([4, 5])] = []
        elif what == 2:
            o[2], o[3] = o[3], o[2]
        elif what == 3:
            o[r.choice([2, 3])] = []
        elif what == 4 and o[4]:
            pb = o[4][0]
            o[4] = [pb]
            o[1] = r.choice([[0x76, 0xA9, h160(pb[1]), 0x88, 0xAC], [0, h160(pb[1])], [0x76, 0xA9, ctx.rbytes(20), 0x88, 0xAC]])
            if r.random() < 0.5:
                o[2], o[3] = [], []
        elif what == 5:
            i[6] = []
        elif what == 6:
            t[3] = t[3][:-1]
        elif what == 7:
            t[3] = []
        elif what == 8:
            sl = i[4] or i[5]
            if sl:
                cs = sl[0]
                k = r.randrange(len(cs))
                sl[0] = r.choice([cs[:k] + cs[k + 1:], cs[:k] + [r.choice([0, 0x51, 0x52, 0x60, 174, ctx.rbytes(3)])] + cs[k + 1:],
                                  cs + [174], cs[:-1]])
        elif what == 9:
            sl = o[2] or o[3]
            if sl:
                cs = sl[0]
                k = r.randrange(len(cs))
                sl[0] = r.choice([cs[:k] + cs[k + 1:], cs[:k] + [r.choice([0, 0x51, 0x52, 0x60, 174, ctx.rbytes(3)])] + cs[k + 1:],
                                  cs + [174], cs[:-1]])
        elif what == 10:
            i[1] = r.choice([i[1] + 1, 7, 2 ** 32 - 1])
        elif what == 11:
            i[7] = []
        elif what == 12:
            o[1] = r.choice([[0x6a, b"data"], [], [0x51, ctx.rbytes(32)], [0xA9, ctx.rbytes(20), 0x87], o[1] + [0x61]])
        elif what == 13 and i[6]:
            pb = i[6][0]
            i[6] = [pb]
            if i[3]:
                i[3][0][1] = [0, h160(pb[1])]
            i[4], i[5] = [], []
        yield with_table(t)


def position_cases(ctx):
    """the one-element-wrong catalogue (see position_tampers): every tampered scenario is a property case on the
    rebuilt objects (records in the scenario's order), a correspondence case for describe and for the declarative
    wallet relation, and - as bytes from the independent encoder - a case for PSBT.parse + describe."""
    r = ctx.rng
    quick = ctx.tier == "quick"
    # (m, n, kind, utxo, change kind, inputs, all orders)
    wallets = [(2, 3, "p2wsh", "wit", None, 1, True), (2, 3, "p2sh", "nonwit", None, 1, True),
               (2, 3, "p2wsh", "both", "p2sh-p2wsh", 1, False), (1, 2, "p2wsh", "nonwit", None, 2, True),
               (2, 3, "p2sh", "nonwit", None, 1, False)]
    if not quick:
        wallets += [(2, 2, "p2sh", "nonwit", None, 2, True), (3, 3, "p2wsh", "both", None, 1, True),
                    (1, 3, "p2sh", "nonwit", None, 1, True), (2, 4, "p2wsh", "wit", None, 1, True),
                    (3, 4, "p2sh", "nonwit", None, 1, False)]

    def emit(kind, t, label):
        t = with_table(t)
        ctx.label(label + " " + kind.split("@")[0])
        yield ("prop", "position_rejected", [kind.encode(), t])
        yield ("corr", "describe", [t])
        if not outside_spec(t) and (t[3] or not t[4]):
            yield ("corr", "honest_spec", [t, spec_m(t)])
        yield ("prop", "bytes_review", [r_psbt(t), t[0], t[3], []])

    def emit_ok(kind, t, m, n):
        t = with_table(t)
        ctx.label("edge-path accepted " + kind.split("@")[0])
        yield ("prop", "order_summary", [t, m, n])
        yield ("corr", "describe", [t])
        if t[3]:
            yield ("corr", "honest_spec", [t, m])
        yield ("prop", "bytes_review", [r_psbt(t), t[0], t[3], honest_expect(t)])

    def edge_cases(sc, m, n, locs, texts):
        """a record whose path length relative to the declared xpub is at the edge (see edge_path_tampers)"""
        decl = _declared(sc)
        for where in locs:
            for k, t, ok in edge_path_tampers(ctx, sc, where):
                if ok:
                    yield from emit_ok(k, t, m, n)
                else:
                    yield from emit(k, t, "edge-path")
                if texts and t[3] and k.startswith("one-exact-depth-own-key"):
                    # the same record with an empty component written after the xpub's own path
                    h, s = _loc(t, where)
                    for p in h[s]:
                        xid, depth = decl[p[2]]
                        if p[1] == own_key(xid):
                            for text, strict in path_texts(p[3] + [0], depth)[:3]:
                                ctx.label("edge-path text no-component-below-xpub")
                                yield ("prop", "path_text_edge", [with_table(t), 0 if where[0] == "in" else 1,
                                                                  where[1], p[0], text.encode(), 1])
            if texts and sc[3]:
                h, s = _loc(sc, where)
                for p in h[s]:
                    xid, depth = decl[p[2]]
                    for text, strict in path_texts(p[3], depth):
                        ctx.label("edge-path text " + ("no-component-below-xpub" if strict else "empty-component"))
                        yield ("prop", "path_text_edge", [sc, 0 if where[0] == "in" else 1, where[1], p[0],
                                                          text.encode(), 1 if strict else 0])

    last = None
    for wi, (m, n, kind, utxo, ck, n_in, full) in enumerate(wallets):
        last = sc if wi else None
        sc = honest(ctx, kind, m, n, n_in, [r.randrange(600, 10 ** 7)], r.randrange(600, 10 ** 8), utxo=utxo,
                    change_kind=ck)
        if wi == 4:
            # the cosigner xpubs come from the PSBT itself (global xpub records), no hdpubkey_map argument
            sc = with_table([sc[0], sc[1], sc[2], [], [[x, [45 + H], xid] for x, xid, _ in sc[3]], []])
            ctx.label("position wallet declared by global xpubs")
            yield ("prop", "default_map", [sc, with_table([last[0], last[1], last[2], [], [], []])])
            yield ("prop", "default_map", [sc, with_table([sc[0], sc[1], sc[2], [], [], []])])
        ctx.label("position wallet %d-of-%d %s/%s" % (m, n, kind, ck or utxo))
        yield ("prop", "bytes_review", [r_psbt(sc), sc[0], sc[3], honest_expect(sc)])
        for t in reordered_honest(sc):
            ctx.label("position honest-reordered")
            yield ("prop", "order_summary", [t, m, n])
            yield ("corr", "describe", [t])
            if t[3]:
                yield ("corr", "honest_spec", [t, m])
            yield ("prop", "bytes_review", [r_psbt(t), t[0], t[3], honest_expect(t)])
        locs = [("out", _chg(sc)), ("in", r.randrange(n_in))]
        for where in locs:
            for k, t in position_tampers(ctx, sc, where, full):
                yield from emit(k, t, "position")
        if wi < 2 or not quick:
            for k, t in hdmap_position_tampers(ctx, sc):
                yield from emit(k, t, "position")
        yield from edge_cases(sc, m, n, locs, wi < 2)
    # cosigner xpubs declared one level deeper (depth 2): "shorter than the xpub" is then a non-empty path
    for kind, utxo in (("p2wsh", "wit"), ("p2sh", "nonwit")) + ((("p2wsh", "both"),) if not quick else ()):
        for m, n in ((2, 3),) if quick else ((2, 3), (1, 2)):
            sc = deep_wallet(ctx, kind, m, n, utxo)
            ctx.label("edge-path wallet %d-of-%d %s/%s xpubs at depth 2" % (m, n, kind, utxo))
            yield ("prop", "order_summary", [sc, m, n])
            yield ("corr", "describe", [sc])
            yield ("corr", "honest_spec", [sc, m])
            yield ("prop", "bytes_review", [r_psbt(sc), sc[0], sc[3], honest_expect(sc)])
            yield from edge_cases(sc, m, n, [("out", _chg(sc)), ("in", 0)], True)
    # one input of three / one output of three
    for kind, utxo in (("p2wsh", "both"), ("p2sh", "nonwit"), ("p2wsh", "wit")):
        sc = honest(ctx, kind, 2, 3, 3, [r.randrange(600, 10 ** 7), r.randrange(600, 10 ** 7)],
                    r.randrange(600, 10 ** 8), utxo=utxo)
        ctx.label("position wallet 2-of-3 %s/%s 3 inputs 3 outputs" % (kind, utxo))
        yield ("prop", "bytes_review", [r_psbt(sc), sc[0], sc[3], honest_expect(sc)])
        for k, t in input_position_tampers(ctx, sc):
            yield from emit(k, t, "position")
        for k, t in output_position_tampers(ctx, sc):
            yield from emit(k, t, "position")
        if not quick:
            for j in range(3):
                for k, t in position_tampers(ctx, sc, ("in", j), False):
                    yield from emit(k, t, "position")


def generate(ctx):
    r = ctx.rng
    for cmds in quorum_shapes(ctx):
        yield ("corr", "quorum", [0, cmds])
        yield ("corr", "quorum", [1, cmds])
    yield from position_cases(ctx)
    nmax = 3 if ctx.tier == "quick" else 4
    combos = [(m, n) for n in range(1, nmax + 1) for m in range(1, n + 1)]
    variants = ["helper", "p2sh", "p2wsh/wit", "p2wsh/nonwit", "p2wsh/both", "p2wsh/p2sh-p2wsh-change"]
    rounds = ctx.n(1, 1)
    n_seq = 0
    for rnd in range(rounds):
        for ci, (m, n) in enumerate(combos):
            # quick tier: three of the six variants per wallet, rotating so that every variant meets
            # three wallets; thorough: all of them
            sel = variants if ctx.tier != "quick" else [variants[(ci + rnd + 2 * k) % 6] for k in range(3)]
            for var in sel:
                n_in = r.choice([1, 1, 2, 3]) if ctx.tier != "quick" else \
                    (3 if n == 1 and var == sel[0] else r.choice([1, 2]) if n < 3 else 1)
                has_change = r.random() < 0.7
                n_sp = r.randrange(0 if has_change else 1, 3)
                spends = [r.randrange(600, 10 ** 7) for _ in range(n_sp)]
                change = r.randrange(600, 10 ** 8) if has_change else None
                ctx.label("wallet %d-of-%d" % (m, n))
                ctx.label("variant " + var)
                ctx.label("inputs %d" % n_in)
                ctx.label("outputs %d%s" % (n_sp + (1 if has_change else 0), " with change" if has_change else " no change"))
                if var == "helper":
                    if not spends and change is None:
                        spends = [1000]
                    p, hmap, bargs = helper_psbt(ctx, m, n, n_in, spends, change)
                    sc = to_scenario(p, hmap)
                    yield ("prop", "rebuild_same", [sc, p.serialize()])
                    ctx.label("builder honest")
                    yield ("prop", "builder_crosschecks", [b"honest", bargs])
                    yield ("corr", "create_psbt", builder_case(bargs))
                    kinds = BUILDER_TAMPERS if ctx.tier != "quick" else r.sample(BUILDER_TAMPERS, 5)
                    for bk in kinds:
                        bt = builder_tamper(ctx, bargs, bk)
                        if bt is not None:
                            ctx.label("builder tamper " + bk)
                            yield ("prop", "builder_crosschecks", [bk.encode(), bt])
                            if bk != "script-type":
                                yield ("corr", "create_psbt", builder_case(bt))
                    for bk in (BUILDER_VARIANTS if ctx.tier != "quick" else r.sample(BUILDER_VARIANTS, 4)):
                        bt = builder_variant(ctx, bargs, bk)
                        if bt is not None:
                            ctx.label("builder variant " + bk)
                            yield ("corr", "create_psbt", builder_case(bt))
                    nomap = with_table([sc[0], sc[1], sc[2], [], sc[4], []])
                    yield ("corr", "describe", [nomap])
                else:
                    kind, _, ut = var.partition("/")
                    ck = None
                    if ut == "p2sh-p2wsh-change":
                        ut, ck = "wit", "p2sh-p2wsh"
                    sc = honest(ctx, kind, m, n, n_in, spends, change, utxo=ut or "auto", change_kind=ck)
                yield ("corr", "describe", [sc])
                yield ("prop", "honest_summary", [sc, m, n])
                ctx.label("honest_spec/honest")
                yield ("corr", "honest_spec", [sc, m])
                if var == "helper":
                    yield ("corr", "honest_spec", [nomap, m])
                for k in range(len(sc[1])):
                    yield ("corr", "validate_in", [sc, k])
                for k in range(len(sc[2])):
                    yield ("corr", "validate_out", [sc, k])
                tlist = []
                for kind, t in tampers(ctx, sc):
                    t = with_table(t)
                    ctx.label("tamper " + kind)
                    yield ("prop", "tamper_rejected", [kind.encode(), t])
                    yield ("corr", "describe", [t])
                    if not outside_spec(t):
                        ctx.label("honest_spec/tampered")
                        yield ("corr", "honest_spec", [t, spec_m(t)])
                    tlist.append((kind, t))
                # ---- the same states on ONE object, edited in place between the descriptions: every tampering of
                # the catalogue between two honest states (chunks of six), then another honest state (an output
                # pays less, the fee grows); thorough tier also tampering -> tampering
                sc2 = _copy.deepcopy(sc)
                sc2[2][r.randrange(len(sc2[2]))][0] -= 100
                n_seq += 1
                for ci in range(0, len(tlist), 6):
                    ch = tlist[ci:ci + 6]
                    seq = [sc]
                    for _, t in ch:
                        seq += [t, sc]
                    if ci == 0:
                        seq += [sc2, sc]
                    mode = 0 if (ci // 6) % 3 == n_seq % 3 else 1
                    ctx.label("reuse/" + ("objects-edited-in-place" if mode else "fields-assigned"))
                    for kind, _ in ch:
                        ctx.label("reuse tamper " + kind)
                    yield ("prop", "describe_reuse", [seq, mode])
                    # the object is first seen in a tampered state, then made honest
                    for kind, t in ch:
                        ctx.label("reuse/tampered-first")
                        yield ("prop", "describe_reuse", [[t, sc], 1])
                    if ctx.tier != "quick":
                        ctx.label("reuse/tamper-to-tamper")
                        yield ("prop", "describe_reuse", [[t for _, t in reversed(ch)] + [sc], 1])
                for t in mutations(ctx, sc, ctx.n(4, 20)):
                    yield ("corr", "describe", [t])
                    if not outside_spec(t):
                        ctx.label("honest_spec/mutated")
                        yield ("corr", "honest_spec", [t, spec_m(t)])
                    yield ("corr", "validate_in", [t, 0])
                    yield ("corr", "validate_out", [t, r.randrange(len(t[2]))])
