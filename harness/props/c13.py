"""C13 — MuSig aggregation yields valid BIP340 signatures; k-of-n trees cover all subsets."""
import contextlib
import io
import itertools

import buidl.taproot as taproot
from buidl.ecc import PrivateKey, S256Point
from buidl.helper import SIGHASH_DEFAULT
from buidl.script import P2TRScriptPubKey
from buidl.taproot import MultiSigTapScript, MuSigTapScript, P2PKTapScript, TapRootMultiSig
from buidl.timelock import Locktime, Sequence
from buidl.tx import Tx, TxIn, TxOut
from buidl.witness import Witness

from props.c12 import (G_, N_, P_, enc_point, enc_tree, mk_cb, mk_point, ref_add, ref_lift_x, ref_mul, ref_root, ref_tagged)

PID = "C13"
RULE = ("Key sets of size 2..5 with mixed parities of the participant points and of the aggregate, small and "
        "full-size secrets, nonces incl. 1, n-1 (and 0, which raises), messages of 32 bytes, with and without "
        "merkle root; one-key, duplicate-key and P/-P key sets (error behaviour); every (k, n) with 1 <= k <= n <= 5 "
        "for the five tree generators and the degrading tree, all k-subsets; altered (delta = 1, n-1, random) and "
        "missing partial signatures; spends through Tx.verify_input with TxIn._value/_script_pubkey set; "
        "Tx.initialize_p2tr_multisig (empty / non-empty witness, MultiSig / MuSig / P2PK tap script, unserializable control "
        "block) and Tx.finalize_p2tr_multisig (2..4 keys, every number of signers 0..n, signatures permuted, empty entries, "
        "64- and 65-byte signatures with hash types 0, 1, 2, 3, 0x81..0x83, unknown hash type, lengths 1, 63, 66, r not on the "
        "curve, s >= n, foreign and duplicate signers, uninitialised input, second call).")
TRUSTED = ["hashlib (sha256) — sha256 is a universally quantified function in the theorems",
           "secp256k1 group law, order and primality: the explicit hypothesis scalar_laws C (instantiated on the toy curve)",
           "x-only lift (parse_xonly of the x coordinate of a valid point succeeds and returns the even-y point): "
           "explicit hypothesis xonly_lift_ok C, proved for the toy curve by computation",
           "harness-side independent reference: BIP340 verification and MuSig key aggregation on plain ints",
           "buidl.taproot.randbelow is replaced from the harness by the nonce stream of the case",
           "modelled in other properties: sig_hash_bip341 (C05), script interpreter (C06/C07) used by the spend predicates",
           "Tx.sig_hash inside finalize_p2tr_multisig is an argument of the model (sighash : hash type -> message); in the "
           "'finalize' correspondence cases it is replaced on the Tx instance by a table, in the 'finalize_real' predicate the real one runs"]
ASSUMPTIONS = ["participants have pairwise distinct x-only keys (a key and its negation collide in coef_lookup)",
               "aggregate key, nonce sums, R and the tweaked key are finite points (side conditions of the theorem; "
               "the implementation raises otherwise)",
               "k >= 2 for MuSig leaves (MuSigTapScript of a single key raises IndexError)"]
BUDGET_S = {"quick": 900, "thorough": 3000}
# 256-bit curve arithmetic is never evaluated inside Coq (DESIGN §3): only the pure functions are self-checked
VM_SKIP = ("multisig_points", "initialize", "finalize", "multisig_cmds", "musig_init", "musig_cmds", "nonce_points", "nonce_sums", "compute", "musig_sign",
           "get_signature", "session", "trms_init", "tree", "degrading")

# ------------------------------------------------------------------ reference


def ref_schnorr_verify(px, msg, sig):
    """BIP340 Verify(pk, m, sig) on ints"""
    if len(sig) != 64:
        return False
    P = ref_lift_x(int.from_bytes(px, "big"))
    r = int.from_bytes(sig[:32], "big")
    s = int.from_bytes(sig[32:], "big")
    if P is None or r >= P_ or s >= N_:
        return False
    e = int.from_bytes(ref_tagged(b"BIP0340/challenge", sig[:32] + px + msg), "big") % N_
    R = ref_add(ref_mul(s, G_), ref_mul(N_ - e, P))
    return R is not None and R[1] % 2 == 0 and R[0] == r


def ref_keyagg(xonlys):
    """aggregate of the sorted x-only keys: sum a_i lift_x(x_i), a_2 = 1"""
    xs = sorted(xonlys)
    L = ref_tagged(b"KeyAgg list", b"".join(xs))
    acc = None
    for i, x in enumerate(xs):
        a = 1 if i == 1 else int.from_bytes(ref_tagged(b"KeyAgg coefficient", L + x), "big")
        acc = ref_add(acc, ref_mul(a, ref_lift_x(int.from_bytes(x, "big"))))
    return acc


# ------------------------------------------------------------------ helpers
def mk_lock(lk):
    if lk == []:
        return {}
    if lk[0] == 0:
        return {"locktime": Locktime(lk[1])}
    return {"sequence": Sequence(lk[1])}


def enc_pair(p):
    return [enc_point(p[0]), enc_point(p[1])]


def mk_pair(v):
    return (mk_point(v[0]), mk_point(v[1]))


class _Nonces:
    """replacement of buidl.taproot.randbelow serving a fixed stream"""

    def __init__(self, stream):
        self.stream = list(stream)

    def __call__(self, n):
        return self.stream.pop(0)


@contextlib.contextmanager
def nonce_stream(stream):
    old = taproot.randbelow
    taproot.randbelow = _Nonces(stream)
    try:
        yield
    finally:
        taproot.randbelow = old


def run_session(privs, nonces, msg, root, points=None, tamper=None, musig=None, agg=None):
    """the signing flow of test_musig.py.  tamper = None | ("alter", i, delta) | ("omit", i);
    musig = an existing MuSigTapScript object to be reused for this session (the signers' object);
    agg = the object of the aggregator (nonce_sums / compute_r / get_signature), default: the signers' object.
    With an empty merkle root the optional argument of sign / get_signature is NOT passed (the default is used)."""
    if musig is None:
        musig = MuSigTapScript(points if points is not None else [p.point for p in privs])
    if agg is None:
        agg = musig
    secret_pairs, point_pairs = [], []
    with nonce_stream([k for pair in nonces for k in pair]):
        for _ in privs:
            ks, ps = musig.generate_nonces()
            secret_pairs.append(ks)
            point_pairs.append(ps)
    sums = agg.nonce_sums(point_pairs)
    r = agg.compute_r(sums, msg)
    s_sum = 0
    for i, (ks, priv) in enumerate(zip(secret_pairs, privs)):
        k = musig.compute_k(ks, sums, msg)
        part = musig.sign(priv, k, r, msg, root) if root != b"" else musig.sign(priv, k, r, msg)
        if tamper and tamper[0] == "alter" and tamper[1] == i:
            part = (part + tamper[2]) % N_
        if tamper and tamper[0] == "omit" and tamper[1] == i:
            if part % N_ == 0:
                raise ValueError("omitted partial signature is zero")
            continue
        s_sum += part
    return musig, (agg.get_signature(s_sum, r, msg, root) if root != b"" else agg.get_signature(s_sum, r, msg))


# ------------------------------------------------------------------ IMPL
def i_multisig_cmds(lk, pts, k):
    return list(MultiSigTapScript([mk_point(p) for p in pts], k, **mk_lock(lk)).commands)


def i_musig_init(pts):
    m = MuSigTapScript([mk_point(p) for p in pts])
    return [[p.xonly() for p in m.points], [enc_point(p) for p in m.points], list(m.coefs), enc_point(m.point)]


def i_musig_cmds(lk, pts):
    return list(MuSigTapScript([mk_point(p) for p in pts], **mk_lock(lk)).commands)


def i_nonce_points(k1, k2):
    m = MuSigTapScript.__new__(MuSigTapScript)
    with nonce_stream([k1, k2]):
        ks, ps = m.generate_nonces()
    assert ks == (k1, k2)
    return enc_pair(ps)


def i_nonce_sums(prs):
    m = MuSigTapScript.__new__(MuSigTapScript)
    return enc_pair(m.nonce_sums([mk_pair(p) for p in prs]))


def _safe(f):
    from vp.sexp import ERR
    try:
        return f()
    except Exception:
        return ERR


def i_compute(pts, sums, k1, k2, msg):
    m = MuSigTapScript([mk_point(p) for p in pts])
    sm = mk_pair(sums)
    return [_safe(lambda: m.compute_coefficient(sm, msg)), _safe(lambda: m.compute_k((k1, k2), sm, msg)),
            _safe(lambda: enc_point(m.compute_r(sm, msg)))]


def i_musig_sign(pts, secret, k, r, msg, root):
    m = MuSigTapScript([mk_point(p) for p in pts])
    if root == b"":          # the default of the optional argument
        return m.sign(PrivateKey(secret), k, mk_point(r), msg)
    return m.sign(PrivateKey(secret), k, mk_point(r), msg, root)


def i_get_signature(pts, s_sum, r, msg, root):
    m = MuSigTapScript([mk_point(p) for p in pts])
    if root == b"":          # the default of the optional argument
        return m.get_signature(s_sum, mk_point(r), msg).serialize()
    return m.get_signature(s_sum, mk_point(r), msg, merkle_root=root).serialize()


def i_session(parts, msg, root):
    privs = [PrivateKey(p[0]) for p in parts]
    _, sig = run_session(privs, [(p[1], p[2]) for p in parts], msg, root)
    return sig.serialize()


def _tree(t):
    return [enc_tree(t), _safe(t.hash)]


def i_tree(kind, pts, k, lk):
    tr = TapRootMultiSig([mk_point(p) for p in pts], k)
    f = [tr.single_leaf, tr.multi_leaf_tree, tr.musig_tree, tr.musig_and_single_leaf_tree, tr.everything_tree][kind]
    return _tree(f(**mk_lock(lk)))


def i_degrading(pts, k, kind, interval):
    tr = TapRootMultiSig([mk_point(p) for p in pts], k)
    kw = {} if kind == 0 else {"sequence_block_interval": interval} if kind == 1 else {"sequence_time_interval": interval}
    return _tree(tr.degrading_multisig_tree(**kw))



def _stub_tx(items, tp):
    """a Tx whose only input has the given witness items and tap_script (None | object with .points)"""
    tx_in = TxIn(bytes(range(32)), 1)
    tx_in.witness = Witness(list(items))
    if tp == []:
        tx_in.tap_script = None
    else:
        ts = MultiSigTapScript.__new__(MultiSigTapScript)
        ts.points = [mk_point(p) for p in tp[0]]
        tx_in.tap_script = ts
    tx_out = TxOut(990000, P2TRScriptPubKey(S256Point.parse_xonly(G_[0].to_bytes(32, "big"))))
    return Tx(1, [tx_in], [tx_out], 0, network="signet", segwit=True), tx_in


def i_initialize(items, prior, cb, kind, pts, k):
    points = [mk_point(p) for p in pts]
    if kind == 0:
        ts = MultiSigTapScript(points, k)
    elif kind == 1:
        ts = MuSigTapScript(points)
    else:
        ts = P2PKTapScript(points[0])
    tx_obj, tx_in = _stub_tx(items, prior)
    raised = 0
    try:
        tx_obj.initialize_p2tr_multisig(0, mk_cb(cb), ts)
    except RuntimeError:
        raised = 1
    tp = tx_in.tap_script
    return [list(tx_in.witness.items), [] if tp is None else [[enc_point(p) for p in tp.points]], raised]


def i_finalize(items, tp, sigs, table):
    tx_obj, tx_in = _stub_tx(items, tp)
    tbl = {}
    for h, m in table:
        tbl.setdefault(h, m)
    tx_obj.sig_hash = lambda input_index, hash_type: tbl[hash_type]
    tx_obj.verify_input = lambda input_index: True
    try:
        tx_obj.finalize_p2tr_multisig(0, list(sigs))
        done = 1
    except RuntimeError as e:
        if "initialize single leaf" in str(e):
            raise
        done = 0
    except Exception:
        done = 0
    return [list(tx_in.witness.items), done]


def _quiet(f):
    def g(*a):
        with contextlib.redirect_stdout(io.StringIO()):
            return f(*a)
    return g


IMPL = {k: _quiet(v) for k, v in {
    "sort_bytes": lambda l: sorted(l),
    "combinations": lambda pool, k: [list(c) for c in taproot.combinations(pool, k)],
    "multisig_cmds": i_multisig_cmds,
    "musig_init": i_musig_init,
    "musig_cmds": i_musig_cmds,
    "nonce_points": i_nonce_points,
    "nonce_sums": i_nonce_sums,
    "compute": i_compute,
    "musig_sign": i_musig_sign,
    "get_signature": i_get_signature,
    "session": i_session,
    "trms_init": lambda pts, k: enc_point(TapRootMultiSig([mk_point(p) for p in pts], k).default_internal_pubkey),
    "tree": i_tree,
    "degrading": i_degrading,
    "multisig_points": lambda pts: [enc_point(p) for p in MultiSigTapScript([mk_point(p) for p in pts], 1).points],
    "initialize": i_initialize,
    "finalize": i_finalize,
}.items()}


# ------------------------------------------------------------------ PROPS
def p_session(parts, msg, root, seed):
    """sum of all partial signatures verifies (library verifier and independent BIP340 reference) for the plain or
    tweaked aggregate key; the aggregate equals the independent KeyAgg reference and is order independent; an altered
    or missing partial signature makes get_signature raise"""
    import random
    r = random.Random(seed)
    privs = [PrivateKey(p[0]) for p in parts]
    nonces = [(p[1], p[2]) for p in parts]
    if sum(k[0] for k in nonces) % N_ == 0 or sum(k[1] for k in nonces) % N_ == 0:
        # stated side condition of the theorem: a nonce sum at infinity; the implementation raises
        try:
            run_session(privs, nonces, msg, root)
        except Exception:
            return None
        return "session with a nonce sum at infinity did not raise"
    musig, sig = run_session(privs, nonces, msg, root)
    agg = musig.point
    if enc_point(agg) != list(ref_keyagg([p.point.xonly() for p in privs])):
        return "aggregate key differs from the KeyAgg reference"
    ext = agg.tweaked_key(root) if root else agg.even_point()
    raw = sig.serialize()
    if not ext.verify_schnorr(msg, sig):
        return "aggregate signature rejected by verify_schnorr"
    if not ref_schnorr_verify(ext.xonly(), msg, raw):
        return "aggregate signature rejected by the BIP340 reference verifier"
    # order independence
    order = list(range(len(privs)))
    r.shuffle(order)
    m2 = MuSigTapScript([privs[i].point for i in order])
    if m2.point != agg:
        return "aggregate key depends on the order of the participants"
    # the same participants listed and signing in another order produce a valid signature too
    # (the signers work on the object listing them in the permuted order, the aggregator on the first object)
    # with fresh nonces (the aggregator's object has already served the first session with the same message)
    nonces2 = [(r.randrange(1, N_), r.randrange(1, N_)) for _ in order]
    _, sig2 = run_session([privs[i] for i in order], nonces2, msg, root, musig=m2, agg=musig)
    if not ref_schnorr_verify(ext.xonly(), msg, sig2.serialize()):
        return "signature of the permuted session (signers and aggregator on separate objects) rejected"
    # alterations
    i = r.randrange(len(privs))
    for tamper in (("alter", i, r.choice([1, N_ - 1, r.randrange(1, N_)])), ("omit", i)):
        try:
            _, bad = run_session(privs, nonces, msg, root, tamper=tamper)
        except ValueError as e:
            if "omitted partial signature is zero" in str(e):
                continue
            continue
        except Exception:
            continue
        return f"get_signature returned a signature although partial signature {i} was {tamper[0]}ed: " \
               f"valid={ref_schnorr_verify(ext.xonly(), msg, bad.serialize())}"
    return None


def p_session_reuse(parts, msg, msg2, root, seed):
    """several signing sessions on ONE MuSigTapScript object (same message with fresh nonces, another message,
    the first nonces again): every session yields a signature valid under BIP340 — nothing is remembered between sessions"""
    import random
    r = random.Random(seed)
    privs = [PrivateKey(p[0]) for p in parts]
    nonces = [(p[1], p[2]) for p in parts]
    fresh = [(r.randrange(1, N_), r.randrange(1, N_)) for _ in parts]
    for ks in (nonces, fresh):
        if sum(k[0] for k in ks) % N_ == 0 or sum(k[1] for k in ks) % N_ == 0:
            return None
    musig, sig = run_session(privs, nonces, msg, root)
    ext = musig.point.tweaked_key(root) if root else musig.point.even_point()
    plan = [(fresh, msg, "same message, fresh nonces"), (nonces, msg2, "another message"),
            (fresh, msg2, "another message, fresh nonces"), (nonces, msg, "first session again")]
    for ks, m, what in plan:
        try:
            _, sg = run_session(privs, ks, m, root, musig=musig)
        except Exception as e:  # noqa
            return f"session on a reused MuSigTapScript ({what}) raised {type(e).__name__}: {e}"
        if not ref_schnorr_verify(ext.xonly(), m, sg.serialize()):
            return f"session on a reused MuSigTapScript ({what}) produced an invalid signature"
    # failure paths followed by a retry on the SAME object: a session whose partial signature was altered (get_signature
    # raises), sign() by somebody who is not a participant (KeyError), r at infinity — then the honest session again
    outsider = PrivateKey(r.randrange(1, N_))
    try:
        run_session(privs, nonces, msg, root, musig=musig, tamper=("alter", r.randrange(len(privs)), r.randrange(1, N_)))
        return "get_signature accepted an altered partial signature on a reused object"
    except Exception:
        pass
    for bad in (lambda: musig.sign(outsider, 5, PrivateKey(7).point, msg, root),
                lambda: musig.sign(privs[0], 5, S256Point(None, None), msg, root),
                lambda: musig.get_signature(0, S256Point(None, None), msg, root),
                lambda: musig.nonce_sums([])):
        try:
            bad()
        except Exception:
            pass
    for ks, m, what in ((nonces, msg, "after failed calls, first session"),):
        try:
            _, sg = run_session(privs, ks, m, root, musig=musig)
        except Exception as e:  # noqa
            return f"session on a reused MuSigTapScript ({what}) raised {type(e).__name__}: {e}"
        if not ref_schnorr_verify(ext.xonly(), m, sg.serialize()):
            return f"session on a reused MuSigTapScript ({what}) produced an invalid signature"
        if m is msg and sg.serialize() != sig.serialize():
            return "the first session repeated on the same object after failed calls gives another signature"
    return None


def p_order(secrets, seed):
    import random
    r = random.Random(seed)
    pts = [PrivateKey(s).point for s in secrets]
    a = MuSigTapScript(pts).point
    for _ in range(3):
        q = pts[:]
        r.shuffle(q)
        if MuSigTapScript(q).point != a:
            return "aggregate key depends on the order of the participants"
    # what is aggregated: the even-y lifts, so negating an input point changes nothing
    flipped = [S256Point(p.x.num, P_ - p.y.num) if r.random() < 0.5 else p for p in pts]
    if MuSigTapScript(flipped).point != a:
        return "aggregate key depends on the y parity of the participants' points"
    if enc_point(a) != list(ref_keyagg([p.xonly() for p in pts])):
        return "aggregate key differs from the KeyAgg reference"
    return None


def _tx_for(spk):
    tx_in = TxIn(bytes(range(32)), 1)
    tx_in._value = 1000000
    tx_in._script_pubkey = spk
    tx_out = TxOut(990000, P2TRScriptPubKey(S256Point.parse_xonly(G_[0].to_bytes(32, "big"))))
    return Tx(1, [tx_in], [tx_out], 0, network="signet", segwit=True), tx_in


def _ref_multisig_cmds(xonlys, k):
    xs = sorted(xonlys)
    cmds = [xs[0], 0xAC]
    if len(xs) > 1:
        for x in xs[1:]:
            cmds += [x, 0xBA]
        cmds += [80 + k, 0x87]
    return cmds


def p_ktree(secrets, k, kind, spend_mask, seed):
    """kind 1: multi_leaf_tree, 2: musig_tree.  Every k-subset owns exactly one leaf, the tree has C(n,k) leaves;
    for the subsets selected by spend_mask a spend of that leaf signed by exactly that subset verifies through
    Tx.verify_input, and (multisig leaves) does not verify when one of the signers is replaced by an outsider."""
    import random
    r = random.Random(seed)
    privs = [PrivateKey(s) for s in secrets]
    pts = [p.point for p in privs]
    tr = TapRootMultiSig(pts, k)
    internal = tr.default_internal_pubkey
    tree = tr.multi_leaf_tree() if kind == 1 else tr.musig_tree()
    leaves = tree.leaves()
    subsets = list(itertools.combinations(range(len(privs)), k))
    if len(leaves) != len(subsets):
        return f"{len(leaves)} leaves for {len(subsets)} subsets"
    root = tree.hash()
    spk = internal.p2tr_script(root)
    for si, sub in enumerate(subsets):
        sub_pts = [pts[i] for i in sub]
        if kind == 1:
            want = _ref_multisig_cmds([p.xonly() for p in sub_pts], k)
        else:
            want = [bytes(ref_keyagg([p.xonly() for p in sub_pts])[0].to_bytes(32, "big")), 0xAC]
        owners = [lf for lf in leaves if lf.tapleaf_version == 0xC0 and lf.tap_script.commands == want]
        if len(owners) != 1:
            return f"subset {sub} owns {len(owners)} leaves"
        if not (spend_mask >> si) & 1:
            continue
        tx_obj, tx_in = _tx_for(spk)
        if kind == 1:
            leaf = MultiSigTapScript(sub_pts, k).tap_leaf()
            cb = tree.control_block(internal, leaf)
            if cb is None:
                return f"no control block for the leaf of subset {sub}"
            tx_in.witness.items = []
            tx_obj.initialize_p2tr_multisig(0, cb, leaf.tap_script)
            sigs = [tx_obj.get_sig_taproot(0, privs[i], ext_flag=1) for i in sub]
            if not tx_obj.finalize_p2tr_multisig(0, sigs) or not tx_obj.verify_input(0):
                return f"spend of the leaf of subset {sub} signed by that subset does not verify"
            outsiders = [i for i in range(len(privs)) if i not in sub]
            if outsiders:
                tx_in.witness.items = []
                tx_in.tap_script = None
                tx_obj.initialize_p2tr_multisig(0, cb, leaf.tap_script)
                who = list(sub)
                who[r.randrange(k)] = r.choice(outsiders)
                sigs = [tx_obj.get_sig_taproot(0, privs[i], ext_flag=1) for i in who]
                try:
                    ok = tx_obj.finalize_p2tr_multisig(0, sigs)
                except Exception:
                    ok = False
                if ok:
                    return f"leaf of subset {sub} spent with signatures of {who}"
        else:
            musig = MuSigTapScript(sub_pts)
            leaf = musig.tap_leaf()
            cb = tree.control_block(internal, leaf)
            if cb is None:
                return f"no control block for the MuSig leaf of subset {sub}"
            tx_in.witness.items = [leaf.tap_script.raw_serialize(), cb.serialize()]
            sig_hash = tx_obj.sig_hash(0, SIGHASH_DEFAULT)
            nonces = [(r.randrange(1, N_), r.randrange(1, N_)) for _ in sub]
            _, sig = run_session([privs[i] for i in sub], nonces, sig_hash, b"", points=sub_pts)
            tx_in.witness.items.insert(0, sig.serialize())
            if not tx_obj.verify_input(0):
                return f"MuSig spend of the leaf of subset {sub} does not verify"
    return None


def p_keypath(secrets, k, kind, seed):
    """key-path spend of a TapRootMultiSig output: all participants MuSig-sign with the merkle root of the tree"""
    import random
    r = random.Random(seed)
    privs = [PrivateKey(s) for s in secrets]
    pts = [p.point for p in privs]
    tr = TapRootMultiSig(pts, k)
    tree = [tr.single_leaf, tr.multi_leaf_tree, tr.musig_tree, tr.musig_and_single_leaf_tree, tr.everything_tree][kind]()
    root = tree.hash()
    spk = tr.default_internal_pubkey.p2tr_script(root)
    tx_obj, tx_in = _tx_for(spk)
    sig_hash = tx_obj.sig_hash(0, SIGHASH_DEFAULT)
    nonces = [(r.randrange(1, N_), r.randrange(1, N_)) for _ in privs]
    _, sig = run_session(privs, nonces, sig_hash, root)
    tx_in.finalize_p2tr_keypath(sig.serialize())
    if not tx_obj.verify_input(0):
        return "MuSig key-path spend does not verify"
    return None



def p_finalize_real(secrets, k, signers, hash_types, seed, blanks):
    """single_leaf k-of-n output (n >= 2) spent through initialize_p2tr_multisig / finalize_p2tr_multisig with the REAL
    sig_hash: the witness is <slot of the last sorted key> .. <slot of the first> <script> <control block> with the
    signer's signature or b"" in each slot, whatever the order of the signatures handed over; finalize returns True iff
    exactly k distinct keys signed, and that is what Tx.verify_input says about the assembled witness"""
    import random
    r = random.Random(seed)
    privs = [PrivateKey(s) for s in secrets]
    pts = [p.point for p in privs]
    tr = TapRootMultiSig(pts, k)
    internal = tr.default_internal_pubkey
    leaf = tr.single_leaf()
    spk = internal.p2tr_script(leaf.hash())
    cb = leaf.control_block(internal, leaf)
    if cb is None:
        return "no control block for the single leaf"
    witnesses = []
    for rnd in range(2):
        tx_obj, tx_in = _tx_for(spk)
        # the TxIn is used as constructed: default Witness(), tap_script None (never assigned by the harness)
        tx_obj.initialize_p2tr_multisig(0, cb, leaf.tap_script)
        if tx_in.witness.items != [leaf.tap_script.raw_serialize(), cb.serialize()] or tx_in.tap_script is not leaf.tap_script:
            return "initialize_p2tr_multisig did not install [script, control block] and the tap script"
        by_key = {}
        sigs = []
        for i, ht in zip(signers, hash_types):
            sg = tx_obj.get_sig_taproot(0, privs[i], ext_flag=1, hash_type=ht)
            by_key[pts[i].xonly()] = sg
            sigs.append(sg)
        if rnd == 0:
            r.shuffle(sigs)
            for _ in range(blanks):
                sigs.insert(r.randrange(len(sigs) + 1), b"")
        else:
            sigs.reverse()
        handed = list(sigs)
        ok = tx_obj.finalize_p2tr_multisig(0, sigs)
        if sigs != handed:
            return "finalize_p2tr_multisig edited the list of signatures of its caller"
        expect = [by_key.get(x, b"") for x in sorted(p.xonly() for p in pts)][::-1]
        expect += [leaf.tap_script.raw_serialize(), cb.serialize()]
        if tx_in.witness.items != expect:
            return f"witness after finalize is not in key order: {[len(x) for x in tx_in.witness.items]}"
        want = len(set(signers)) == k
        if bool(ok) != want:
            return f"finalize returned {ok} with {len(set(signers))} signers for a {k}-of-{len(pts)} leaf"
        if bool(tx_obj.verify_input(0)) != want:
            return "verify_input disagrees with the value finalize returned"
        witnesses.append(list(tx_in.witness.items))
    if witnesses[0] != witnesses[1]:
        return "the assembled witness depends on the order of the signatures"
    return None


# --- audit round 4: alternative entry points, defaults, coinciding fields, per-element attributes, shared state
def ref_num(n):
    """encode_minimal_num on ints: the op code for 0..16, else the minimal little-endian sign-magnitude push"""
    if n == 0:
        return 0
    if 1 <= n <= 16:
        return 80 + n
    out = bytearray()
    while n:
        out.append(n & 0xFF)
        n >>= 8
    if out[-1] & 0x80:
        out.append(0)
    return bytes(out)


def _ref_lock(lock):
    if lock is None:
        return []
    return [ref_num(lock[1]), 0xB1 if lock[0] == "L" else 0xB2, 0x75]


def _ref_leaf(cmds):
    return [0, 0xC0, [cmds, []]]


def _ref_combine(nodes):
    if len(nodes) == 1:
        return nodes[0]
    h = len(nodes) // 2
    return [1, _ref_combine(nodes[:h]), _ref_combine(nodes[h:])]


class _RefTrees:
    """the tree generators of TapRootMultiSig on x-only keys (in the order the participants were listed)"""

    def __init__(self, xonlys, k):
        self.xs, self.k, self.memo = list(xonlys), k, {}

    def agg(self, sub):
        key = tuple(sorted(sub))
        if key not in self.memo:
            self.memo[key] = ref_keyagg(list(sub))[0].to_bytes(32, "big")
        return self.memo[key]

    def single(self, lock=None):
        return _ref_leaf(_ref_lock(lock) + _ref_multisig_cmds(self.xs, self.k))

    def multi(self, lock=None):
        return _ref_combine([_ref_leaf(_ref_lock(lock) + _ref_multisig_cmds(list(c), self.k))
                             for c in itertools.combinations(self.xs, self.k)])

    def musig(self, lock=None):
        return _ref_combine([_ref_leaf(_ref_lock(lock) + [self.agg(c), 0xAC]) for c in itertools.combinations(self.xs, self.k)])

    def musig_single(self, lock=None):
        return [1, self.single(lock), self.musig(lock)]

    def everything(self, lock=None):
        return [1, self.single(lock), [1, self.multi(lock), self.musig(lock)]]

    def degrading(self, seq_of_level):
        leaves = []
        for j in range(self.k, 0, -1):
            lock = None if j == self.k else seq_of_level(self.k - j)
            for c in itertools.combinations(self.xs, j):
                leaves.append(_ref_leaf(_ref_lock(lock) + _ref_multisig_cmds(list(c), j)))
        return _ref_combine(leaves)


def p_trms_reuse(secrets, k, lock_l, lock_s, block, seconds, seed):
    """ONE TapRootMultiSig object asked for many trees in a row (with and without locktime / sequence, with the optional
    internal_pubkey, with both degrading intervals, with a call that raises in between): every result equals the
    independent reference tree (commands and merkle root) — no result depends on an earlier call, the optional
    internal_pubkey changes nothing, locktime together with sequence raises ValueError, the block interval wins over the
    time interval, and the caller's list of points is left alone"""
    import random
    r = random.Random(seed)
    privs = [PrivateKey(s) for s in secrets]
    pts = [p.point for p in privs]
    given = list(pts)
    ref = _RefTrees([p.xonly() for p in pts], k)
    tr = TapRootMultiSig(pts, k)
    other = PrivateKey(r.randrange(1, N_)).point
    L, S = Locktime(lock_l), Sequence(lock_s)

    def same(what, got, want):
        if enc_tree(got) != want:
            return f"{what}: tree differs from the reference"
        if got.hash() != ref_root(want):
            return f"{what}: merkle root differs from the reference"
        return None

    def raises(what, f):
        try:
            f()
        except ValueError:
            return None
        except Exception as e:  # noqa
            return f"{what} with locktime and sequence raised {type(e).__name__}, not ValueError"
        return f"{what} with locktime and sequence did not raise"

    if list(ref_keyagg([p.xonly() for p in pts])) != enc_point(tr.default_internal_pubkey):
        return "default_internal_pubkey is not the aggregate of all keys"
    musig_ok = k >= 2
    steps = []

    def by_time(d):      # an interval of 0 counts as "not given": no sequence at any level
        return ("S", (1 << 22) | (seconds * d // 512)) if seconds else None

    if musig_ok:
        steps.append(("musig_tree()", lambda: tr.musig_tree(), ref.musig()))
    steps += [
        ("single_leaf(locktime)", lambda: tr.single_leaf(locktime=L), ref.single(("L", lock_l))),
        ("RAISE", "single_leaf", lambda: tr.single_leaf(locktime=L, sequence=S)),
        ("multi_leaf_tree(sequence)", lambda: tr.multi_leaf_tree(sequence=S), ref.multi(("S", lock_s))),
        ("RAISE", "multi_leaf_tree", lambda: tr.multi_leaf_tree(L, S)),
        ("RAISE", "MultiSigTapScript", lambda: MultiSigTapScript(pts, k, L, S)),
        ("RAISE", "MuSigTapScript", lambda: MuSigTapScript(pts, L, S)),
        ("multi_leaf_tree(locktime) positional", lambda: tr.multi_leaf_tree(L), ref.multi(("L", lock_l))),
    ]
    if musig_ok:
        steps += [
            ("RAISE", "musig_tree", lambda: tr.musig_tree(locktime=L, sequence=S)),
            ("everything_tree(internal_pubkey)", lambda: tr.everything_tree(internal_pubkey=other), ref.everything()),
            ("musig_and_single_leaf_tree(internal_pubkey, locktime)",
             lambda: tr.musig_and_single_leaf_tree(other, L), ref.musig_single(("L", lock_l))),
            ("musig_tree(sequence)", lambda: tr.musig_tree(sequence=S), ref.musig(("S", lock_s))),
        ]
    steps += [
        ("degrading(block and time interval)", lambda: tr.degrading_multisig_tree(block, seconds),
         ref.degrading(lambda d: ("S", block * d) if block else by_time(d))),
        ("degrading(time interval)", lambda: tr.degrading_multisig_tree(sequence_time_interval=seconds), ref.degrading(by_time)),
        ("degrading()", lambda: tr.degrading_multisig_tree(), ref.degrading(lambda d: None)),
        ("single_leaf()", lambda: tr.single_leaf(), ref.single()),
        ("multi_leaf_tree()", lambda: tr.multi_leaf_tree(), ref.multi()),
    ]
    if musig_ok:
        steps += [("musig_tree() again", lambda: tr.musig_tree(), ref.musig()),
                  ("musig_and_single_leaf_tree()", lambda: tr.musig_and_single_leaf_tree(), ref.musig_single())]
    for st in steps:
        if st[0] == "RAISE":
            bad = raises(st[1], st[2])
        else:
            bad = same(st[0], st[1](), st[2])
        if bad:
            return bad + " (one TapRootMultiSig object, calls in a row)"
        if pts != given or any(a is not b for a, b in zip(pts, given)) or tr.points != given or tr.k != k:
            return f"after {st[0]} {st[1] if st[0] == 'RAISE' else ''}: the list of points of the caller / of the object was edited"
    return None


def p_two_inputs(secrets, k, hts0, hts1, seed):
    """a transaction with TWO tapscript-multisig inputs that share their keys (input 0: k-of-n single leaf of all keys,
    input 1: another threshold over the first two keys), TxIn objects exactly as constructed (default Witness, no
    tap_script).  initialize / finalize of one input never touch the other one, each input gets its own tap script and the
    signatures made for ITS sighash (each with its own hash type) although finalize is handed the signatures of both
    inputs; both inputs verify"""
    import random
    r = random.Random(seed)
    privs = [PrivateKey(s) for s in secrets]
    pts = [p.point for p in privs]
    n = len(pts)
    sets = [(list(range(n)), k), ([0, 1], 1 if (n > 2 or k != 1) else 2)]
    info = []
    for idx, kk in sets:
        tr = TapRootMultiSig([pts[i] for i in idx], kk)
        leaf = tr.single_leaf()
        internal = tr.default_internal_pubkey
        cb = leaf.control_block(internal, leaf)
        if cb is None:
            return "no control block for the single leaf"
        info.append((idx, kk, leaf, cb, internal.p2tr_script(leaf.hash())))
    tx_ins = []
    for j, (_, _, _, _, spk) in enumerate(info):
        ti = TxIn(bytes([j + 1]) * 32, 3 - j)
        ti._value = 600000 + 1000 * j
        ti._script_pubkey = spk
        tx_ins.append(ti)
    spare = TxIn(bytes(32), 0)
    outs = [TxOut(500000 + j, P2TRScriptPubKey(S256Point.parse_xonly(G_[0].to_bytes(32, "big")))) for j in range(2)]
    tx_obj = Tx(1, tx_ins, outs, 0, network="signet", segwit=True)
    if any(ti.witness.items != [] or ti.tap_script is not None for ti in tx_ins + [spare]):
        return "a fresh TxIn has a non-empty witness or a tap script"
    if tx_ins[0].witness is tx_ins[1].witness or tx_ins[0].witness.items is tx_ins[1].witness.items:
        return "two fresh TxIn objects share their witness"
    base = []
    for j in (1, 0):
        idx, kk, leaf, cb, spk = info[j]
        tx_obj.initialize_p2tr_multisig(j, cb, leaf.tap_script)
        base.insert(0, [leaf.tap_script.raw_serialize(), cb.serialize()])
        if tx_ins[j].witness.items != base[0] or tx_ins[j].tap_script is not leaf.tap_script:
            return f"initialize_p2tr_multisig({j}) did not install [script, control block] and the tap script on input {j}"
        if j == 1 and (tx_ins[0].witness.items != [] or tx_ins[0].tap_script is not None):
            return "initialize_p2tr_multisig(1) touched input 0"
    if spare.witness.items != [] or TxIn(bytes(32), 1).witness.items != []:
        return "initialize_p2tr_multisig leaked into the witness of an unrelated / new TxIn"
    by_key, allsigs = [{}, {}], []
    for j, hts in ((0, hts0), (1, hts1)):
        idx, kk = info[j][0], info[j][1]
        for i, ht in zip(idx[:kk], hts):
            sg = tx_obj.get_sig_taproot(j, privs[i], ext_flag=1, hash_type=ht)
            by_key[j][pts[i].xonly()] = sg
            allsigs.append(sg)
    for j in (1, 0):
        idx, kk, leaf, cb, spk = info[j]
        other_before = list(tx_ins[1 - j].witness.items)
        sigs = list(allsigs)
        r.shuffle(sigs)
        ok = tx_obj.finalize_p2tr_multisig(j, sigs)
        expect = [by_key[j].get(x, b"") for x in sorted(pts[i].xonly() for i in idx)][::-1] + base[j]
        if tx_ins[j].witness.items != expect:
            return f"witness of input {j} after finalize is not its own signatures in key order: {[len(x) for x in tx_ins[j].witness.items]}"
        if tx_ins[1 - j].witness.items != other_before:
            return f"finalize_p2tr_multisig({j}) changed the witness of input {1 - j}"
        if not ok:
            return f"finalize_p2tr_multisig({j}) returned {ok} for a fully signed input"
    for j in (0, 1):
        if not tx_obj.verify_input(j):
            return f"input {j} does not verify"
    if spare.witness.items != []:
        return "finalize_p2tr_multisig leaked into the witness of an unrelated TxIn"
    return None


PROPS = {k: _quiet(v) for k, v in {"finalize_real": p_finalize_real, "session": p_session, "session_reuse": p_session_reuse, "order": p_order, "ktree": p_ktree,
                                   "keypath": p_keypath, "trms_reuse": p_trms_reuse, "two_inputs": p_two_inputs}.items()}

# ------------------------------------------------------------------ generators
_pts = {}


def point_of(s):
    if s not in _pts:
        _pts[s] = PrivateKey(s).point
    return _pts[s]


def rand_secret(r):
    k = r.random()
    if k < 0.45:
        return r.randrange(1, 1 << 20)
    if k < 0.55:
        return N_ - r.randrange(1, 1 << 12)
    return r.randrange(1, N_)


def key_set(r, size, want_parities=None):
    """distinct x-only keys; want_parities: list of wanted parities of the points (None = any)"""
    out = []
    seen = set()
    while len(out) < size:
        s = rand_secret(r)
        pt = point_of(s)
        if pt.xonly() in seen:
            continue
        if want_parities is not None and pt.parity != want_parities[len(out)]:
            continue
        seen.add(pt.xonly())
        out.append(s)
    return out


def rand_nonce(r):
    k = r.random()
    if k < 0.15:
        return 1
    if k < 0.3:
        return N_ - 1
    if k < 0.4:
        return r.randrange(1, 1 << 16)
    return r.randrange(1, N_)



HASH_TYPES = (0, 1, 2, 3, 0x81, 0x82, 0x83)


def _schnorr(secret, msg, ht, aux=b"\x00" * 32):
    raw = PrivateKey(secret).sign_schnorr(msg, aux).serialize()
    return raw + bytes([ht]) if ht else raw


def gen_finalize(ctx):
    r = ctx.rng
    cbv = [0xC0, 1, enc_point(point_of(5)), [ctx.rbytes(32)]]
    for n in (2, 3, 4):
        secrets = key_set(r, n)
        pts = [enc_point(point_of(s)) for s in secrets]
        ctx.label(f"finalize/n={n}")
        yield ("corr", "multisig_points", [pts])
        # initialize: fresh witness with each kind of tap script, non-empty witness, prior tap script
        for kind in (0, 1, 2):
            yield ("corr", "initialize", [[], [], cbv, kind, pts, r.randrange(1, n + 1)])
        yield ("corr", "initialize", [[b"\x01"], [], cbv, 0, pts, 1])
        yield ("corr", "initialize", [[b"\x01", b"\x02"], [[pts[0]]], cbv, 1, pts, 1])
        yield ("corr", "initialize", [[], [[pts[0]]], cbv, 1, pts, 1])          # wrong type: witness replaced, old tap script kept
        yield ("corr", "initialize", [[], [], [0xC0, 0x40, pts[0], []], 0, pts, 1])   # version + parity = 256: serialize raises
        yield ("corr", "initialize", [[], [], cbv, 0, pts, 17])
        # finalize against a sig_hash table
        sorted_pts = [enc_point(p) for p in MultiSigTapScript([point_of(s) for s in secrets], 1).points]
        tp = [sorted_pts]
        table = [[ht, ctx.rbytes(32)] for ht in (0, 1, 3, 0x81)]
        msg_of = dict((h, m) for h, m in table)
        items = [ctx.rbytes(40), ctx.rbytes(65)]
        for m in range(0, n + 1):
            for _ in range(ctx.n(1, 4)):
                who = r.sample(range(n), m)
                sigs = []
                for i in who:
                    ht = r.choice((0, 0, 1, 3, 0x81))
                    sigs.append(_schnorr(secrets[i], msg_of[ht], ht))
                r.shuffle(sigs)
                for _b in range(r.randrange(0, 3)):
                    sigs.insert(r.randrange(len(sigs) + 1), b"")
                ctx.label(f"finalize/signers={m}")
                yield ("corr", "finalize", [items, tp, sigs, table])
        s0 = _schnorr(secrets[0], msg_of[0], 0)
        s1 = _schnorr(secrets[1], msg_of[1], 1)
        foreign = _schnorr(r.randrange(1, N_), msg_of[0], 0)
        wrong_msg = _schnorr(secrets[0], ctx.rbytes(32), 0)
        dup = _schnorr(secrets[0], msg_of[0], 0, aux=ctx.rbytes(32))
        bad_r = (P_ - 1).to_bytes(32, "big") + s0[32:]
        off_curve = (5).to_bytes(32, "big") + s0[32:]          # x = 5 is not on secp256k1
        big_s = s0[:32] + N_.to_bytes(32, "big")
        for label, sigs in (
                ("foreign", [foreign, s1]), ("wrong-msg", [wrong_msg, s1]), ("duplicate", [dup, s0, s1]), ("duplicate", [s0, dup]),
                ("unknown-hashtype", [s1, s0[:64] + b"\x02"]), ("unknown-hashtype-first", [s0[:64] + b"\x02", s0, s1]),
                ("len-1", [s0, b"\x00"]), ("len-63", [s0[:63], s1]), ("len-66", [s1, s0 + b"\x00\x00"]), ("len-32", [s0[:32]]),
                ("r-not-field", [bad_r, s0]), ("r-off-curve", [s1, off_curve]), ("s>=n", [big_s, s0, s1]),
                ("all-empty", [b"", b""]), ("none", []), ("same-twice", [s0, s0]),
                ("flipped-bit", [bytes([s0[0] ^ 1]) + s0[1:], s1])) + ((
                # audit round 4: 65 bytes with an explicit hash-type byte 00, signatures of one byte class
                ("ht-byte-00", [s0 + b"\x00", s1]), ("ht-byte-00-only", [s0 + b"\x00"]), ("all-zero", [bytes(64), s1]),
                ("all-ff", [s0, b"\xff" * 64]), ("all-zero-65", [bytes(65), s0])) if n == 2 or ctx.tier == "thorough" else ()):
            ctx.label("finalize/" + label)
            yield ("corr", "finalize", [items, tp, sigs, table])
        # uninitialised input, too few items, second call on an already finalized witness
        yield ("corr", "finalize", [items, [], [s0], table])
        yield ("corr", "finalize", [items[:1], tp, [s0], table])
        yield ("corr", "finalize", [[], tp, [s0], table])
        yield ("corr", "finalize", [[s0, b""] + items, tp, [s0, s1], table])
        yield ("corr", "finalize", [items, [[]], [s0], table])
        # hand-built tap scripts (not reachable through MultiSigTapScript.__init__): one key in two slots, keys not sorted
        if n == 2 or ctx.tier == "thorough":
            ctx.label("finalize/key-in-two-slots")
            yield ("corr", "finalize", [items, [[sorted_pts[0], sorted_pts[0], sorted_pts[1]]], [s1, s0], table])
            ctx.label("finalize/unsorted-points")
            yield ("corr", "finalize", [items, [sorted_pts[::-1]], [s0, s1], table])
        # the real flow: every number of signers for a sampled threshold
        for m in range(0, n + 1):
            if ctx.tier != "thorough" and m not in (0, 1, n) and r.random() < 0.5:
                continue
            k = r.randrange(1, n + 1) if r.random() < 0.5 else max(1, m)
            k = min(k, n)
            who = r.sample(range(n), m)
            hts = [r.choice(HASH_TYPES) for _ in who]
            ctx.label(f"finalize_real/k={k}/n={n}/signers={m}")
            yield ("prop", "finalize_real", [secrets, k, who, hts, r.getrandbits(30), r.randrange(0, 3)])


def generate(ctx):
    r = ctx.rng
    # --- sorting and combinations (pure)
    for _ in range(ctx.n(40, 1500)):
        l = [ctx.rbytes(r.choice([0, 1, 2, 2, 32])) for _ in range(r.randrange(0, 7))]
        if l and r.random() < 0.3:
            l.append(r.choice(l))
        yield ("corr", "sort_bytes", [l])
    for n in range(0, 7):
        for k in range(0, n + 2):
            ctx.label("combinations/k>n" if k > n else "combinations")
            yield ("corr", "combinations", [list(range(10, 10 + n)), k])
    yield ("corr", "combinations", [[7, 7, 8], 2])
    # --- aggregation
    for size in (2, 3, 4, 5):
        for rep in range(ctx.n(2, 12)):
            pars = [r.randrange(2) for _ in range(size)] if rep else [i % 2 for i in range(size)]
            secrets = key_set(r, size, pars)
            pts = [enc_point(point_of(s)) for s in secrets]
            ctx.label(f"keyagg/size={size}")
            yield ("corr", "musig_init", [pts])
            yield ("prop", "order", [secrets, r.getrandbits(30)])
            if rep == 0:
                yield ("corr", "musig_cmds", [[], pts])
                yield ("corr", "musig_cmds", [[0, r.choice([0, 16, 17, 500000000, 2 ** 32 - 1])], pts])
                yield ("corr", "multisig_cmds", [[], pts, r.randrange(1, size + 1)])
                yield ("corr", "multisig_cmds", [[1, r.choice([0, 1, 16, 17, 127, 128, 255, 256, 0x400000 | 18, 2 ** 32 - 1])], pts, size])
    s1, s2, s3 = key_set(r, 3)
    p1, p2, p3 = (enc_point(point_of(s)) for s in (s1, s2, s3))
    neg1 = [p1[0], P_ - p1[1]]
    for pts in ([], [p1], [p1, p1], [p1, neg1], [p1, p2, p1], [p1, []], [[], p1], [[], []]):
        ctx.label("keyagg/degenerate")
        yield ("corr", "musig_init", [pts])
        yield ("corr", "multisig_cmds", [[], pts, 1])
    for k in (-2, -1, 0, 1, 16, 17):
        yield ("corr", "multisig_cmds", [[], [p1, p2], k])
        yield ("corr", "multisig_cmds", [[], [p1], k])
    for lk in ([0, -1], [0, 2 ** 32], [1, -1], [1, 2 ** 32], [0, 0x80], [0, 0x8000], [1, 0xffff], [0, 0x7fffffff], [0, 0x80000000]):
        yield ("corr", "multisig_cmds", [lk, [p1, p2], 2])
        yield ("corr", "musig_cmds", [lk, [p1, p2]])
    # --- nonces
    for k1, k2 in [(1, 1), (1, N_ - 1), (N_ - 1, 2), (0, 5), (5, 0), (r.randrange(1, N_), r.randrange(1, N_))]:
        yield ("corr", "nonce_points", [k1, k2])
    np_ = [enc_pair(tuple(point_of(r.randrange(1, 1 << 18)) for _ in range(2))) for _ in range(4)]
    for m in range(0, 5):
        yield ("corr", "nonce_sums", [np_[:m]])
    yield ("corr", "nonce_sums", [[np_[0], [np_[0][0], [np_[0][1][0], P_ - np_[0][1][1]]]]])   # second sum at infinity
    for pts in ([p1, p2], [p1, p2, p3]):
        sums = mk_pair(np_[0]), mk_pair(np_[1])
        sm = enc_pair((sums[0][0] + sums[1][0], sums[0][1] + sums[1][1]))
        yield ("corr", "compute", [pts, sm, rand_nonce(r), rand_nonce(r), ctx.rbytes(32)])
        yield ("corr", "compute", [pts, [sm[0], []], 3, 4, ctx.rbytes(32)])
        yield ("corr", "compute", [pts, [[], sm[1]], 3, 4, ctx.rbytes(32)])
    # --- full sessions
    for size in (2, 3, 4, 5):
        for rep in range(ctx.n(2, 20) if size <= 3 else ctx.n(1, 20)):
            pars = [r.randrange(2) for _ in range(size)] if rep else [i % 2 for i in range(size)]
            secrets = key_set(r, size, pars)
            parts = [[s, rand_nonce(r), rand_nonce(r)] for s in secrets]
            msg = ctx.rbytes(32)
            root = b"" if (rep + size) % 2 == 0 else ctx.rbytes(32)
            agg = MuSigTapScript([point_of(s) for s in secrets]).point
            ctx.label(f"session/size={size}/root={'yes' if root else 'no'}/aggparity={agg.parity}")
            yield ("corr", "session", [parts, msg, root])
            yield ("prop", "session", [parts, msg, root, r.getrandbits(30)])
            if len(parts) <= 3 and ((size == 2 and rep == 0) or r.random() < 0.5):
                ctx.label("session/reused-object")
                yield ("prop", "session_reuse", [parts, msg, ctx.rbytes(32), root, r.getrandbits(30)])
    # --- audit round 4: byte classes that random payloads never produce.  A merkle root / message made of 00 or ff
    # bytes (an all-zero root is still a root: the tweaked branch), keys whose x-only encoding starts with 00 / ff
    special = [153, 6, 1158, 201]         # x-only keys 00.. (even y), ff.. (odd y), 00.. (odd y), ff.. (even y)
    assert [ref_mul(s, G_)[0] >> 248 for s in special] == [0, 255, 0, 255]
    assert [ref_mul(s, G_)[1] & 1 for s in special] == [0, 1, 1, 0]
    sec2 = key_set(r, 2)
    for keys, msg, root, what in ((sec2, bytes(32), b"", "msg=00"), (special[:2], b"\xff" * 32, bytes(32), "msg=ff,root=00,keys=00/ff"),
                                  (special[2:], ctx.rbytes(32), b"\xff" * 32, "root=ff,keys=00/ff"), (sec2, bytes(32), bytes(32), "msg=00,root=00")):
        parts = [[s, rand_nonce(r), rand_nonce(r)] for s in keys]
        ctx.label("session/byteclass/" + what)
        yield ("corr", "session", [parts, msg, root])
    parts = [[s, r.randrange(1, N_), r.randrange(1, N_)] for s in special[1:3]]
    yield ("prop", "session", [parts, bytes(32), bytes(32), r.getrandbits(30)])
    ctx.label("keyagg/xonly-starts-00-or-ff")
    yield ("corr", "musig_init", [[enc_point(point_of(s)) for s in special[:2]]])
    yield ("corr", "musig_init", [[enc_point(point_of(s)) for s in special]])
    yield ("prop", "order", [special[:3], r.getrandbits(30)])
    # every combination of (aggregate parity, R parity, tweaked-key parity) with a merkle root: the four sign
    # branches of sign() and the two of get_signature() (Example C13_toy_parity_branches is the Coq-side counterpart)
    want = set(itertools.product((0, 1), repeat=3))
    tries = 0
    while want and tries < 120:
        tries += 1
        secrets = key_set(r, 2)
        parts = [[s, rand_nonce(r), rand_nonce(r)] for s in secrets]
        msg, root = ctx.rbytes(32), ctx.rbytes(32)
        m = MuSigTapScript([point_of(s) for s in secrets])
        try:
            sums = m.nonce_sums([(point_of(p[1]), point_of(p[2])) for p in parts])
            combo = (int(m.point.parity), int(m.compute_r(sums, msg).parity), int(m.point.tweaked_key(root).parity))
        except Exception:
            continue
        if combo not in want:
            continue
        want.discard(combo)
        ctx.label("session/parities(agg,R,ext)=%d%d%d" % combo)
        yield ("corr", "session", [parts, msg, root])
        if ctx.tier == "thorough" or combo[0] != combo[2]:
            yield ("prop", "session", [parts, msg, root, r.getrandbits(30)])
    secrets = key_set(r, 2)
    pts = [enc_point(point_of(s)) for s in secrets]
    msg = ctx.rbytes(32)
    # error behaviour of the session: zero nonces, foreign signer, duplicate keys, P and -P
    yield ("corr", "session", [[[secrets[0], 0, 0], [secrets[1], 0, 0]], msg, b""])
    yield ("corr", "session", [[[secrets[0], 5, N_ - 5], [secrets[1], N_ - 5, 5]], msg, b""])
    yield ("corr", "session", [[[secrets[0], 5, 7]], msg, b""])
    yield ("corr", "session", [[], msg, b""])
    yield ("corr", "session", [[[secrets[0], 5, 7], [secrets[0], 8, 9]], msg, b""])
    yield ("corr", "session", [[[secrets[0], 5, 7], [N_ - secrets[0], 8, 9]], msg, ctx.rbytes(32)])
    yield ("corr", "session", [[[secrets[0], 5, 7], [0, 8, 9]], msg, b""])
    yield ("corr", "session", [[[secrets[0], 5, 7], [secrets[1], 8, 9]], ctx.rbytes(5), ctx.rbytes(7)])
    rr = enc_point(point_of(77))
    for root in (b"", ctx.rbytes(32)):
        yield ("corr", "musig_sign", [pts, secrets[0], 123456, rr, msg, root])
        yield ("corr", "musig_sign", [pts, secrets[1], N_ - 1, rr, msg, root])
        yield ("corr", "musig_sign", [pts, 999, 5, rr, msg, root])          # not a participant: KeyError
        yield ("corr", "musig_sign", [pts, secrets[0], 5, [], msg, root])   # r at infinity
        for s_sum in (0, 1, N_, -5, r.randrange(N_), 2 ** 256 + 3):
            yield ("corr", "get_signature", [pts, s_sum, rr, msg, root])
        yield ("corr", "get_signature", [pts, 5, [], msg, root])
    # --- trees: every (k, n) <= 5
    base = key_set(r, 5, [0, 1, 1, 0, 1])
    for n in range(1, 6):
        secrets = base[:n]
        pts = [enc_point(point_of(s)) for s in secrets]
        for k in range(0, n + 2):
            ctx.label(f"tree/k={k}/n={n}")
            yield ("corr", "trms_init", [pts, k])
            full = ctx.tier == "thorough" or (k, n) in ((1, 2), (2, 2), (2, 3), (3, 3), (2, 4), (3, 5), (5, 5))
            kinds = (0, 1, 2, 3, 4) if full else (r.choice([0, 1]), 2)
            for kind in kinds:
                yield ("corr", "tree", [kind, pts, k, []])
            if full and 1 <= k <= n:
                yield ("corr", "tree", [r.choice([1, 2, 4]), pts, k, [r.randrange(2), r.choice([5, 17, 300, 70000])]])
                yield ("corr", "degrading", [pts, k, 0, 0])
                yield ("corr", "degrading", [pts, k, 1, r.choice([0, 1, 9, 144])])
                yield ("corr", "degrading", [pts, k, 2, r.choice([0, 512, 18 * 512, 100000])])
            if n >= 2 and 1 <= k <= n:
                nsub = len(list(itertools.combinations(range(n), k)))
                if ctx.tier == "thorough":
                    mask = (1 << nsub) - 1
                else:
                    mask = 1 << r.randrange(nsub)
                yield ("prop", "ktree", [secrets, k, 1, mask, r.getrandbits(30)])
                if k >= 2:
                    yield ("prop", "ktree", [secrets, k, 2, mask, r.getrandbits(30)])
    # --- Tx.initialize_p2tr_multisig / Tx.finalize_p2tr_multisig
    yield from gen_finalize(ctx)
    for _ in range(ctx.n(2, 10)):
        n = r.randrange(2, 6)
        secrets = key_set(r, n)
        k = r.randrange(1, n + 1)
        yield ("prop", "keypath", [secrets, k, r.randrange(5) if k >= 2 else r.randrange(2), r.getrandbits(30)])
    yield ("corr", "tree", [1, [enc_point(point_of(s)) for s in base[:3]], 17, []])
    yield ("corr", "degrading", [[enc_point(point_of(s)) for s in base[:2]], 2, 1, 2 ** 32])
    # --- audit round 4: one TapRootMultiSig object asked for many trees (optional arguments, failing calls in between,
    # locktime 0 / sequence 0 which are falsy but not None, both degrading intervals); two multisig inputs in one Tx
    sec = key_set(r, 3, [0, 1, 1])
    ctx.label("trms_reuse/2-of-3")
    yield ("prop", "trms_reuse", [sec, 2, 500000, 144, 10, 5120, r.getrandbits(30)])
    ctx.label("trms_reuse/2-of-2/lock=0")
    yield ("prop", "trms_reuse", [sec[:2], 2, 0, 0, 1, 512, r.getrandbits(30)])
    ctx.label("trms_reuse/1-of-2")
    yield ("prop", "trms_reuse", [sec[1:], 1, 128, 17, 0, 1024, r.getrandbits(30)])
    if ctx.tier == "thorough":
        for n, k, ll, ss, bl, se in ((3, 3, 16, 0x8000, 3, 0), (4, 3, 17, 65535, 0, 51200), (4, 2, 2 ** 32 - 1, 0x400000 | 7, 144, 512),
                                     (5, 4, 1, 1, 1, 1)):
            yield ("prop", "trms_reuse", [key_set(r, n), k, ll, ss, bl, se, r.getrandbits(30)])
    ctx.label("two_inputs/n=2")
    yield ("prop", "two_inputs", [key_set(r, 2), 2, [r.choice(HASH_TYPES), r.choice(HASH_TYPES)], [r.choice(HASH_TYPES), 0], r.getrandbits(30)])
    if ctx.tier == "thorough":
        for n, k in ((2, 1), (3, 2), (3, 3), (4, 2)):
            yield ("prop", "two_inputs", [key_set(r, n), k, [r.choice(HASH_TYPES) for _ in range(k)],
                                          [r.choice(HASH_TYPES), r.choice(HASH_TYPES)], r.getrandbits(30)])
