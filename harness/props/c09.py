"""C09 — Base58Check, Bech32/Bech32m, address <-> scriptPubKey mapping, WIF."""
import hashlib
from io import BytesIO

from buidl import helper, bech32, script, tx, pecc
from vp.sexp import ERR

PID = "C09"
NETS = ["mainnet", "testnet", "signet", "regtest", "foonet"]
B58 = "123456789ABCDEFGHJKLMNPQRSTUVWXYZabcdefghijkmnopqrstuvwxyz"
B32 = "qpzry9x8gf2tvdw0s3jn54khce6mua7l"
N = 0xFFFFFFFFFFFFFFFFFFFFFFFFFFFFFFFEBAAEDCE6AF48A03BBFD25E8CD0364141
RULE = ("Base58: every payload length 0..82 with every leading-zero run class (none, some, all), exhaustive "
        "single-character substitutions of sampled strings, characters outside the alphabet, '1' after a digit; "
        "segwit: all witness versions 0..16 x all program lengths 2..40 x 4 networks (complete enumeration), "
        "every single substitution (31 alternatives plus non-alphabet characters) at every data position of sampled "
        "addresses, all 961 symbol pairs at sampled position pairs; addresses: 5 templates x 4 networks; "
        "WIF: boundary and random secrets x compressed x network; converse direction (decode then encode) on valid, "
        "non-canonical (non-zero / over-long padding, foreign version byte, odd payload length) and random texts; "
        "RedeemScript/WitnessScript address entry points and ScriptPubKey.parse(bytes).address on the five templates, "
        "near misses and malformed streams; every text class additionally through text_iff (all decoders vs independent "
        "reference decoders in both directions, rejection only by ValueError/RuntimeError, no None result): one "
        "constructed valid-checksum text per rejecting branch (unknown / swapped human-readable part, every Base58 "
        "first-character class, hash and program lengths around 20/32 per witness version, WIF payload lengths "
        "0..65, last byte other than 01, foreign prefix bytes, secrets 0 / N / N+1 / 2^256-1), unknown networks and "
        "out-of-range secrets at the encoders, scriptPubKeys read from the middle of a stream with the length in every "
        "compact-size form, P2TR from a curve point, non-bytes constructor arguments; characters outside the alphabet "
        "COMPENSATED so that a lenient digit lookup (str.find = -1, default 0, alphabet length, clamped, ord arithmetic, "
        "look-alike and case folding, ignored) would decode a valid payload with a matching checksum: base58 payloads of "
        "10 lengths x 3 leading-zero classes, P2PKH/P2SH addresses x 4 networks, WIF x 4, xprv/xpub x 2 networks (also "
        "through HDPrivateKey.parse / HDPublicKey.parse), segwit addresses (foreign character at the version symbol / "
        "in the program, checksum recomputed under the reading; upper-case and look-alike substitutions anywhere), bc32; "
        "entry-point audit: S256Point.address / p2wpkh_address / p2sh_p2wpkh_address / p2tr_address on +-G, +-2G, +-3G x 5 "
        "networks with the network by keyword / by position / omitted, every omitted network / compressed argument right "
        "after a call with another value (5 scriptPubKey classes, RedeemScript, WitnessScript, encode_bech32_checksum, "
        "PrivateKey), default-constructed scripts, create_p2sh_multisig with expected_addr (8 variants x 4 networks), "
        "RedeemScript/WitnessScript.convert, Tx.find_utxos on outputs that differ in hash, template and amount, long-lived "
        "RedeemScript/WitnessScript objects edited between address calls, p2sh_address of a segwit scriptPubKey that is used "
        "again afterwards, valid texts of ground character classes (data part only digits / only letters, Base58Check "
        "texts without digits), a valid checksum over no data.")
TRUSTED = ["hashlib (sha256) — hash256 is a universally quantified function with 32-byte output in the theorems",
           "text is modelled as a list of code points; harness inputs are latin-1 strings (one code point per byte)",
           "PrivateKey.__init__ computes secret*G, which is not modelled (only its range check is)"]
ASSUMPTIONS = ["hash256 returns 32 bytes (hypothesis of the Base58Check theorems)",
               "hash160 returns 20 bytes and sha256 returns 32 bytes (hypotheses of the RedeemScript / WitnessScript "
               "address theorems; both are universally quantified functions)",
               "error-detection theorem: data part of at most 90 characters (explicit bound of the sweep)"]


def T(b):
    return b.decode("latin-1")


def netidx(name):
    return NETS.index(name)


# ---------------------------------------------------------------- implementation adapters


def i_decode_bech32(s):
    net, v, h = bech32.decode_bech32(T(s))
    return [NETS.index(net) if net in NETS else -1, v, h]      # a network that is no network is a VALUE, not an error


# A decoder REJECTS a text by raising ValueError / RuntimeError (the classes the library raises on purpose).  Anything
# else that comes out of a rejecting branch — UnboundLocalError / AttributeError / TypeError further down because the
# branch did not raise, a None return — is not a rejection: the adapters below turn it into a VALUE, so that it
# disagrees with the model's error, and the predicates report it.  IndexError is what the unchanged library raises
# on the four degenerate texts below (address[0] of '', data[0] of an empty data part) and only there.
CLEAN = (ValueError, RuntimeError)
DEGENERATE = ("", "bc1", "tb1", "bcrt1")


def _is_timeout(e):
    return type(e).__name__ == "ImplTimeout"


def _guard(f):
    def g(sb, *rest):
        try:
            r = f(sb, *rest)
        except CLEAN:
            raise
        except Exception as e:  # noqa
            if _is_timeout(e) or (isinstance(e, IndexError) and T(sb) in DEGENERATE):
                raise
            return [b"crash-instead-of-rejection", type(e).__name__.encode()]
        return [b"returned-None"] if r is None else r
    return g


def _commands(spk):
    return [b"returned-None"] if spk is None else spk.commands


def _spk(t, h):
    cls = [script.P2PKHScriptPubKey, script.P2SHScriptPubKey, script.P2WPKHScriptPubKey,
           script.P2WSHScriptPubKey, script.P2TRScriptPubKey][t if 0 <= t < 5 else 4]
    return cls(h)


def i_address(t, h, net):
    return _spk(t, h).address(NETS[net])


def _quiet(f, *a):
    """Script.parse prints a diagnostic on inexact parses; keep it out of the check's output"""
    import contextlib
    import io
    with contextlib.redirect_stdout(io.StringIO()):
        return f(*a)


def _segwit_spk(cmds):
    """a SegwitPubKey object (P2WPKH/P2WSH class, by the length of the program) holding exactly these commands"""
    cmds = list(cmds)
    h = cmds[1] if len(cmds) > 1 and isinstance(cmds[1], bytes) else b""
    obj = (script.P2WSHScriptPubKey if len(h) == 32 else script.P2WPKHScriptPubKey)(h)
    obj.commands = cmds
    return obj


def i_wif_encode(secret, mainnet, compressed):
    return pecc.PrivateKey(secret, network="mainnet" if mainnet else "testnet").wif(compressed=bool(compressed))


def i_wif_parse(s):
    pk = pecc.PrivateKey.parse(T(s))
    return [pk.secret, pk.network == "mainnet", bool(pk.compressed)]


IMPL = {
    "encode_base58": lambda b: helper.encode_base58(b),
    "encode_base58_checksum": lambda b: helper.encode_base58_checksum(b),
    "raw_decode_base58": _guard(lambda s: helper.raw_decode_base58(T(s))),
    "decode_base58": _guard(lambda s: helper.decode_base58(T(s))),
    "polymod": lambda v: bech32.bech32_polymod(v),
    "hrp_expand": lambda s: bech32.bech32_hrp_expand(T(s)),
    "create_checksum": lambda m, hrp, d: (bech32.bech32m_create_checksum if m else bech32.bech32_create_checksum)(T(hrp), d),
    "verify_checksum": lambda m, hrp, d: (bech32.bech32m_verify_checksum if m else bech32.bech32_verify_checksum)(T(hrp), d),
    "group_32": lambda s: bech32.group_32(s),
    "encode_bech32_checksum": lambda s, net: bech32.encode_bech32_checksum(s, NETS[net]),
    "decode_bech32": _guard(i_decode_bech32),
    "address": i_address,
    "address_to_script_pubkey": _guard(lambda s: _commands(script.address_to_script_pubkey(T(s)))),
    "to_address": _guard(lambda s: _commands(tx.TxOut.to_address(T(s), 1).script_pubkey)),
    "wif_encode": i_wif_encode,
    "wif_parse": _guard(i_wif_parse),
    # other entry points (Model/AddressExt.v)
    "redeem_address": lambda cmds, net: script.RedeemScript(list(cmds)).address(NETS[net]),
    "segwit_p2sh_address": lambda cmds, net: _segwit_spk(cmds).p2sh_address(NETS[net]),
    "witness_address": lambda cmds, net: script.WitnessScript(list(cmds)).address(NETS[net]),
    "witness_p2sh_address": lambda cmds, net: script.WitnessScript(list(cmds)).p2sh_address(NETS[net]),
    "spk_bytes_address": lambda s, net: _quiet(script.ScriptPubKey.parse, BytesIO(s)).address(NETS[net]),
    "address_to_spk_bytes": _guard(lambda a: script.address_to_script_pubkey(T(a)).serialize()),
}

# ---------------------------------------------------------------- independent references


def h256(b):
    return hashlib.sha256(hashlib.sha256(b).digest()).digest()


def ref_b58enc(b):
    z = len(b) - len(b.lstrip(b"\x00"))
    n = int.from_bytes(b, "big")
    out = ""
    while n:
        n, r = divmod(n, 58)
        out = B58[r] + out
    return "1" * z + out


def ref_b58dec(s):
    """bytes of a base58 string (Bitcoin Core DecodeBase58 semantics), None if a character is not in the alphabet"""
    if any(c not in B58 for c in s):
        return None
    z = len(s) - len(s.lstrip("1"))
    n = 0
    for c in s:
        n = n * 58 + B58.index(c)
    body = n.to_bytes((n.bit_length() + 7) // 8, "big")
    return b"\x00" * z + body


def ref_polymod(values):
    gen = [0x3b6a57b2, 0x26508e6d, 0x1ea119fa, 0x3d4233dd, 0x2a1462b3]
    chk = 1
    for v in values:
        top = chk >> 25
        chk = ((chk & 0x1ffffff) << 5) ^ v
        for i in range(5):
            if (top >> i) & 1:
                chk ^= gen[i]
    return chk


def ref_hrp(h):
    return [ord(c) >> 5 for c in h] + [0] + [ord(c) & 31 for c in h]


def ref_conv(data, frm, to, pad):
    acc = bits = 0
    out = []
    for v in data:
        acc = (acc << frm) | v
        bits += frm
        while bits >= to:
            bits -= to
            out.append((acc >> bits) & ((1 << to) - 1))
    if pad and bits:
        out.append((acc << (to - bits)) & ((1 << to) - 1))
    return out


def ref_segwit(hrp, ver, prog, const=None):
    data = [ver] + ref_conv(prog, 8, 5, True)
    if const is None:
        const = 1 if ver == 0 else 0x2bc830a3
    pm = ref_polymod(ref_hrp(hrp) + data + [0] * 6) ^ const
    chk = [(pm >> 5 * (5 - i)) & 31 for i in range(6)]
    return hrp + "1" + "".join(B32[d] for d in data + chk)


def ref_wif_text(secret, mainnet, compressed, suffix=None):
    raw = bytes([0x80 if mainnet else 0xef]) + secret.to_bytes(32, "big") + \
        ((b"\x01" if compressed else b"") if suffix is None else suffix)
    return ref_b58enc(raw + h256(raw)[:4])


def spk_bytes(ver, prog):
    return bytes([0 if ver == 0 else 0x50 + ver, len(prog)]) + prog


HRP = {0: "bc", 1: "tb", 2: "tb", 3: "bcrt"}

# ---------------------------------------------------------------- property predicates


def _raises(f, *a):
    try:
        f(*a)
    except Exception:
        return True
    return False


def p_b58_rt(b):
    s = helper.encode_base58_checksum(b)
    if any(c not in B58 for c in s):
        return "encode_base58_checksum emitted a character outside the alphabet"
    if s != ref_b58enc(b + h256(b)[:4]):
        return "encoding differs from the reference base58check encoding"
    if helper.raw_decode_base58(s) != b:
        return "raw_decode_base58 does not invert encode_base58_checksum"
    if len(b) >= 1 and helper.decode_base58(s) != b[1:]:
        return "decode_base58 does not strip exactly the version byte"
    if b and helper.encode_base58(b) != ref_b58enc(b):
        return "encode_base58 differs from the reference"
    return None


def p_b58_accept_iff(sb):
    """accepted exactly when the 4-byte double-SHA256 checksum of the decoded bytes matches"""
    s = T(sb)
    raw = ref_b58dec(s)
    try:
        got = helper.raw_decode_base58(s)
    except Exception:
        got = None
    if raw is None:
        return None if got is None else "string with a character outside the alphabet accepted"
    valid = len(raw) >= 4 and h256(raw[:-4])[:4] == raw[-4:]
    if valid and got != raw[:-4]:
        return f"valid base58check string rejected or decoded differently: {got!r}"
    if not valid and got is not None:
        return f"base58 string with a wrong checksum accepted: payload {got!r}"
    return None


def p_segwit_rt(ver, prog, net):
    addr = bech32.encode_bech32_checksum(spk_bytes(ver, prog), NETS[net])
    hrp = HRP[net]
    if addr != ref_segwit(hrp, ver, prog):
        return f"address {addr} differs from the BIP173/BIP350 reference {ref_segwit(hrp, ver, prog)}"
    data = [B32.index(c) for c in addr[len(hrp) + 1:]]
    want = 1 if ver == 0 else 0x2bc830a3
    if ref_polymod(ref_hrp(hrp) + data) != want:
        return "wrong checksum constant for this witness version"
    got = bech32.decode_bech32(addr)
    exp_net = {"bc": "mainnet", "tb": "testnet", "bcrt": "regtest"}[hrp]
    if got != [exp_net, ver, prog]:
        return f"decode_bech32 returned {got!r}"
    # the other constant must be rejected
    other = ref_segwit(hrp, ver, prog, const=(0x2bc830a3 if ver == 0 else 1))
    if not _raises(bech32.decode_bech32, other):
        return f"version {ver} address with the wrong checksum constant accepted: {other}"
    return None


ALT = "1bio" + "QPZ" + " /\xff"


def p_segwit_sub1(ver, prog, net, pos):
    """every substitution of the data-part character at pos (31 alphabet alternatives + foreign characters)"""
    addr = bech32.encode_bech32_checksum(spk_bytes(ver, prog), NETS[net])
    start = len(HRP[net]) + 1
    p = start + pos % (len(addr) - start)
    for c in B32 + ALT:
        if c == addr[p]:
            continue
        bad = addr[:p] + c + addr[p + 1:]
        try:
            r = bech32.decode_bech32(bad)
        except Exception:
            continue
        return f"{addr} with character {p} replaced by {c!r} is accepted: {r!r}"
    return None


def p_segwit_sub2(ver, prog, net, pos1, pos2):
    """all 31 x 31 double substitutions at two distinct data-part positions"""
    addr = bech32.encode_bech32_checksum(spk_bytes(ver, prog), NETS[net])
    start = len(HRP[net]) + 1
    n = len(addr) - start
    p1 = start + pos1 % n
    p2 = start + pos2 % n
    if p1 == p2:
        p2 = start + (pos2 + 1) % n
    for c1 in B32:
        if c1 == addr[p1]:
            continue
        for c2 in B32:
            if c2 == addr[p2]:
                continue
            l = list(addr)
            l[p1], l[p2] = c1, c2
            bad = "".join(l)
            try:
                r = bech32.decode_bech32(bad)
            except Exception:
                continue
            return f"{addr} -> {bad} (2 substitutions) is accepted: {r!r}"
    return None


def p_group32(s):
    got = bech32.group_32(s)
    want = ref_conv(s, 8, 5, True)
    if s and got != want:
        return "group_32 differs from 8->5 regrouping with zero padding"
    if not s and got != [0]:
        return "group_32(b'') changed"
    return None


def p_spk_addr(t, h, net):
    spk = _spk(t, h)
    addr = spk.address(NETS[net])
    back = script.address_to_script_pubkey(addr)
    if back.commands != spk.commands or type(back) is not type(spk):
        return f"address_to_script_pubkey({addr}) gives {back!r}"
    if back.address(NETS[net]) != addr:
        return "address of the recovered script differs"
    return None


def p_to_address(t, h, net):
    spk = _spk(t, h)
    addr = spk.address(NETS[net])
    try:
        out = tx.TxOut.to_address(addr, 7)
    except Exception as e:
        return f"TxOut.to_address({addr}) raised {type(e).__name__} for a standard {type(spk).__name__} on {NETS[net]}"
    if out.script_pubkey.commands != spk.commands or out.amount != 7:
        return f"TxOut.to_address({addr}) builds {out.script_pubkey!r}"
    return None


def p_addr_distinct(h1, h2, net):
    """addresses of different scripts differ (all templates, one network)"""
    seen = {}
    for t in range(5):
        for h in (h1, h2):
            hh = h[:20] if t in (0, 1, 2) else h[:32]
            a = _spk(t, hh).address(NETS[net])
            key = (t if t != 3 or True else t, hh)
            if a in seen and seen[a] != (t, hh):
                return f"address {a} is shared by {seen[a]!r} and {(t, hh)!r}"
            seen[a] = (t, hh)
    return None


def p_wif_rt(secret, mainnet, compressed):
    if not 1 <= secret < N:
        ok = _raises(i_wif_encode, secret, mainnet, compressed)
        return None if ok else "secret outside [1, N-1] was encoded"
    w = i_wif_encode(secret, mainnet, compressed)
    raw = bytes([0x80 if mainnet else 0xef]) + secret.to_bytes(32, "big") + (b"\x01" if compressed else b"")
    if w != ref_b58enc(raw + h256(raw)[:4]):
        return "WIF differs from the reference encoding"
    if i_wif_parse(w.encode()) != [secret, bool(mainnet), bool(compressed)]:
        return "PrivateKey.parse does not invert wif()"
    return None


# ---- converse direction: decode, then encode


def _seg_canonical(a):
    """the conditions of C09_segwit_decode_encode_canonical, computed from the text alone"""
    for hrp in ("bcrt", "bc", "tb"):
        if a.startswith(hrp + "1"):
            d = a[len(hrp) + 1:]
            break
    else:
        return False
    if any(c not in B32 for c in d) or len(d) < 7:
        return False
    body = [B32.index(c) for c in d[1:-6]]
    pad = (5 * len(body)) % 8
    val = 0
    for x in body:
        val = val * 32 + x
    return pad < 5 and val % (1 << pad) == 0


def p_decode_encode(sb):
    """whatever a decoder accepts re-encodes to the same text (Base58Check, WIF, segwit), and what decode_bech32
    accepts is canonical (separator '1', fewer than 5 padding bits, all zero: fixes cfb8181, 00bc7dc)"""
    s = T(sb)
    try:
        raw = helper.raw_decode_base58(s)
    except Exception:
        raw = None
    if raw is not None:
        if helper.encode_base58_checksum(raw) != s:
            return f"raw_decode_base58 accepts {s!r} but its payload encodes to {helper.encode_base58_checksum(raw)!r}"
        try:
            pk = pecc.PrivateKey.parse(s)
        except Exception:
            pk = None
        if pk is not None:
            if len(raw) not in (33, 34) or pk.compressed != (len(raw) == 34) or pk.wif(compressed=pk.compressed) != s:
                return f"PrivateKey.parse accepts {s!r} but wif() of the result differs"
    try:
        net, ver, prog = bech32.decode_bech32(s)
    except Exception:
        return None
    if not (net in ("mainnet", "testnet", "regtest") and 0 <= ver < 32 and 2 <= len(prog) <= 40):
        return f"decode_bech32 returned values out of range: {(net, ver, len(prog))!r}"
    if not _seg_canonical(s):
        return f"decode_bech32 accepts the non-canonical text {s!r} (separator / padding)"
    back = bech32.encode_bech32_checksum(bytes([0x50 + ver if ver else 0, len(prog)]) + prog, net)
    if back != s:
        return f"decode_bech32 accepts {s} but the result encodes to {back}"
    return None


def p_parsers_only_addresses(sb):
    """a text accepted by address_to_script_pubkey / TxOut.to_address is the address of the returned scriptPubKey,
    one of the five standard templates, on some network, and the two parsers agree
    (fixes cfb8181, adc6e07, 87f2a60)"""
    s = T(sb)
    got = []
    for name, f in (("address_to_script_pubkey", script.address_to_script_pubkey),
                    ("TxOut.to_address", lambda x: tx.TxOut.to_address(x, 1).script_pubkey)):
        try:
            spk = f(s)
        except Exception:
            got.append(None)
            continue
        got.append(spk.commands)
        if not (spk.is_p2pkh() or spk.is_p2sh() or spk.is_p2wpkh() or spk.is_p2wsh() or spk.is_p2tr()):
            return f"{name} accepts {s!r} and returns the non-standard scriptPubKey {spk!r}"
        addrs = []
        for n in NETS[:4]:
            try:
                addrs.append(spk.address(n))
            except Exception:
                pass
        if s not in addrs:
            return f"{name} accepts {s!r} (-> {spk!r}) although the addresses of that script are {sorted(set(addrs))!r}"
    if got[0] != got[1]:
        return f"address_to_script_pubkey and TxOut.to_address disagree on {s!r}: {got[0]!r} vs {got[1]!r}"
    return None


def p_wif_only_wif(sb):
    """a text accepted by PrivateKey.parse is wif() of the parsed key (fix 6e4d66f)"""
    s = T(sb)
    try:
        pk = pecc.PrivateKey.parse(s)
    except Exception:
        return None
    if s not in (pk.wif(compressed=True), pk.wif(compressed=False)):
        return f"PrivateKey.parse accepts {s!r} (secret {pk.secret}) which is neither wif(True) nor wif(False) of that key"
    return None


# ---- the accepted sets, decided by independent reference decoders (both directions, and HOW a text is rejected)

SEG_NET = {"bc": "mainnet", "tb": "testnet", "bcrt": "regtest"}


def ref_segdec(s):
    """[network, version symbol, program] when s is in the accepted set of decode_bech32 as C09_decode_bech32_iff
    states it (known prefix, separator '1', lower-case alphabet, bech32 constant for version symbol 0 and bech32m
    otherwise, at most 4 padding bits, all zero, 2..40 program bytes), None otherwise; written from BIP173/BIP350"""
    for hrp in ("bcrt", "bc", "tb"):
        if s.startswith(hrp + "1"):
            d = s[len(hrp) + 1:]
            break
    else:
        return None
    if len(d) < 7 or any(c not in B32 for c in d):
        return None
    data = [B32.index(c) for c in d]
    if ref_polymod(ref_hrp(hrp) + data) != (1 if data[0] == 0 else 0x2bc830a3):
        return None
    body = data[1:-6]
    pad = 5 * len(body) % 8
    val = 0
    for x in body:
        val = val * 32 + x
    nbytes = 5 * len(body) // 8
    if pad > 4 or val & ((1 << pad) - 1) or not 2 <= nbytes <= 40:
        return None
    return [SEG_NET[hrp], data[0], (val >> pad).to_bytes(nbytes, "big")]


def ref_parse_address(s):
    """(template, hash) when s is the address of one of the five standard scriptPubKeys on some network, else None"""
    raw = ref_b58dec(s)
    if raw is not None and len(raw) == 25 and h256(raw[:21])[:4] == raw[21:]:
        t = {0x00: 0, 0x6f: 0, 0x05: 1, 0xc4: 1}.get(raw[0])
        return None if t is None else (t, raw[1:21])
    d = ref_segdec(s)
    if d is not None:
        _, v, prog = d
        if v == 0 and len(prog) in (20, 32):
            return (2 if len(prog) == 20 else 3, prog)
        if v == 1 and len(prog) == 32:
            return (4, prog)
    return None


def ref_wif(s):
    """[secret, network, compressed] when s is a WIF text, None otherwise"""
    raw = ref_b58dec(s)
    if raw is None or len(raw) < 4 or h256(raw[:-4])[:4] != raw[-4:]:
        return None
    p = raw[:-4]
    if len(p) == 34 and p[33] == 1:
        comp = True
    elif len(p) == 33:
        comp = False
    else:
        return None
    if p[0] not in (0x80, 0xef):
        return None
    sec = int.from_bytes(p[1:33], "big")
    if not 1 <= sec < N:
        return None
    return [sec, "mainnet" if p[0] == 0x80 else "testnet", comp]


def _outcome(f, s):
    """("value", v) | ("rejected", None) | ("crash", description): see CLEAN above"""
    try:
        r = f(s)
    except CLEAN:
        return "rejected", None
    except Exception as e:  # noqa
        if _is_timeout(e):
            raise
        if isinstance(e, IndexError) and s in DEGENERATE:
            return "rejected", None
        return "crash", f"raises {type(e).__name__} ({str(e)[:80]}) instead of rejecting the text with ValueError/RuntimeError"
    if r is None:
        return "crash", "returns None instead of raising"
    return "value", r


def _judge(name, s, kind, got, want, show=repr):
    """want: the reference value or None (text must be rejected)"""
    if kind == "crash":
        return f"{name}({s!r}) {got}" + ("" if want is None else f"; the text is valid: {show(want)}")
    if want is None:
        return None if kind == "rejected" else f"{name} accepts {s!r}, which the reference decoder rejects: {show(got)}"
    if kind == "rejected":
        return f"{name} rejects the valid text {s!r} ({show(want)})"
    return None if got == want else f"{name}({s!r}) = {show(got)}, reference {show(want)}"


def p_text_iff(sb):
    """ONE text through every decoder of the property: each accepts it exactly when the independent reference decoder
    does, with the same result, and rejects it with the exception class the library uses for that (not by crashing
    further down, not by returning None)"""
    s = T(sb)
    # Base58Check
    raw = ref_b58dec(s)
    want = raw[:-4] if raw is not None and len(raw) >= 4 and h256(raw[:-4])[:4] == raw[-4:] else None
    k, got = _outcome(helper.raw_decode_base58, s)
    d = _judge("raw_decode_base58", s, k, got, want)
    if d:
        return d
    k, got = _outcome(helper.decode_base58, s)
    d = _judge("decode_base58", s, k, got, None if want is None else want[1:])
    if d:
        return d
    # segwit
    k, got = _outcome(bech32.decode_bech32, s)
    d = _judge("decode_bech32", s, k, list(got) if k == "value" and isinstance(got, (list, tuple)) else got, ref_segdec(s))
    if d:
        return d
    # addresses: both parsers
    ra = ref_parse_address(s)
    want = None if ra is None else [SPK_CLS[ra[0]].__name__, spk_commands(*ra)]
    for name, f in (("address_to_script_pubkey", script.address_to_script_pubkey),
                    ("TxOut.to_address", lambda x: _spk_of(tx.TxOut.to_address(x, 5)))):
        k, got = _outcome(f, s)
        if k == "value":
            got = [type(got).__name__, getattr(got, "commands", None)]
        d = _judge(name, s, k, got, want)
        if d:
            return d
    # WIF
    k, got = _outcome(pecc.PrivateKey.parse, s)
    if k == "value":
        got = [getattr(got, "secret", None), getattr(got, "network", None), getattr(got, "compressed", None)]
    return _judge("PrivateKey.parse", s, k, got, ref_wif(s))


def _spk_of(txout):
    if txout is None:
        return None
    if txout.amount != 5:
        raise AssertionError("TxOut.to_address did not keep the amount")
    return txout.script_pubkey


def p_encode_refuses(what, a, net):
    """the encoders refuse what they must refuse by raising ValueError/RuntimeError: an unknown network name for a
    segwit address, a secret outside [1, N-1] for a key"""
    if what == 0:
        f, args, name = bech32.encode_bech32_checksum, (a, NETS[net]), "encode_bech32_checksum"
        must = NETS[net] not in ("mainnet", "testnet", "signet", "regtest")
    elif what == 1:
        f, args, name = (lambda t, h, n: _spk(t, h).address(n)), (a[0], a[1], NETS[net]), "address"
        must = a[0] >= 2 and net == 4
    else:
        f, args, name = pecc.PrivateKey, (a,), "PrivateKey"
        must = not 1 <= a < N
    try:
        r = f(*args)
    except CLEAN:
        return None if must else f"{name}{args!r} raised for an argument inside the domain"
    except Exception as e:  # noqa
        if _is_timeout(e):
            raise
        return f"{name}{args!r} raises {type(e).__name__} instead of ValueError/RuntimeError"
    if must:
        return f"{name}{args!r} returned {r!r} for an argument it must refuse"
    return None


def h160(b):
    return hashlib.new("ripemd160", hashlib.sha256(b).digest()).digest()


def ref_ser(cmds):
    out = b""
    for c in cmds:
        if isinstance(c, int):
            out += bytes([c])
        elif len(c) <= 75:
            out += bytes([len(c)]) + c
        elif len(c) < 256:
            out += bytes([76, len(c)]) + c
        else:
            out += bytes([77]) + len(c).to_bytes(2, "little") + c
    return out


def p_script_entry_points(cmds, net):
    """RedeemScript.address / WitnessScript.address / WitnessScript.p2sh_address equal the reference address of the
    hash of the serialised script, and both parsers read them back as that P2SH / P2WSH scriptPubKey"""
    cmds = list(cmds)
    raw = ref_ser(cmds)
    want = [("redeem", script.RedeemScript(cmds).address(NETS[net]), 1, h160(raw)),
            ("witness", script.WitnessScript(cmds).address(NETS[net]), 3, hashlib.sha256(raw).digest()),
            ("witness-p2sh", script.WitnessScript(cmds).p2sh_address(NETS[net]), 1,
             h160(b"\x00\x20" + hashlib.sha256(raw).digest()))]
    for name, addr, t, h in want:
        if addr != ref_address(t, h, net):
            return f"{name} address {addr} differs from the reference {ref_address(t, h, net)}"
        if script.address_to_script_pubkey(addr).commands != spk_commands(t, h):
            return f"address_to_script_pubkey does not give back the script of the {name} address"
        if tx.TxOut.to_address(addr, 3).script_pubkey.commands != spk_commands(t, h):
            return f"TxOut.to_address does not give back the script of the {name} address"
    return None


def p_spk_bytes_rt(t, h, net):
    """serialised standard scriptPubKey -> ScriptPubKey.parse -> address -> address_to_script_pubkey -> serialize:
    the same bytes, and the typed class is the template's"""
    b = script.Script(spk_commands(t, h)).serialize()
    obj = script.ScriptPubKey.parse(BytesIO(b))
    if type(obj) is not SPK_CLS[t]:
        return f"ScriptPubKey.parse built a {type(obj).__name__} for template {t}"
    a = obj.address(NETS[net])
    if a != ref_address(t, h, net):
        return f"address {a} differs from the reference {ref_address(t, h, net)}"
    if script.address_to_script_pubkey(a).serialize() != b:
        return "address_to_script_pubkey(address).serialize() differs from the original bytes"
    return None


def p_ctor_refuses(t, kind):
    """the scriptPubKey classes take the hash as bytes (P2TR: bytes or a curve point) and refuse anything else with
    TypeError - they do not build a script (and later an address) from it"""
    bad = [None, 5, "00" * (20 if t < 3 else 32), [0] * 20, bytearray(20 if t < 3 else 32), 0][kind % 6]
    try:
        obj = SPK_CLS[t](bad)
    except TypeError:
        return None
    except Exception as e:  # noqa
        if _is_timeout(e):
            raise
        return f"{SPK_CLS[t].__name__}({bad!r}) raises {type(e).__name__}, not TypeError"
    try:
        a = obj.address("mainnet")
    except Exception as e:  # noqa
        if _is_timeout(e):
            raise
        a = "address() raises " + type(e).__name__
    return f"{SPK_CLS[t].__name__}({bad!r}) is accepted: commands {obj.commands!r}, address {a!r}"


def len_prefix(n, form):
    """compact-size length n in the minimal form (0) or padded to 3 / 5 / 9 bytes (1 / 2 / 3)"""
    if form == 0:
        return bytes([n]) if n < 0xfd else b"\xfd" + n.to_bytes(2, "little")
    return [b"\xfd", b"\xfe", b"\xff"][form - 1] + n.to_bytes([2, 4, 8][form - 1], "little")


def p_spk_stream(t, h, net, form, before, after):
    """a standard scriptPubKey read from the MIDDLE of a stream (bytes before and after it, any compact-size form of
    its length): ScriptPubKey.parse consumes exactly the script, builds the template's class, and its address is the
    reference address"""
    raw = ref_ser(spk_commands(t, h))
    pre = len_prefix(len(raw), form)
    st = BytesIO(before + pre + raw + after)
    st.read(len(before))
    obj = _quiet(script.ScriptPubKey.parse, st)
    if st.tell() != len(before) + len(pre) + len(raw):
        return f"ScriptPubKey.parse left the stream at {st.tell()}, the script ends at {len(before) + len(pre) + len(raw)}"
    if type(obj) is not SPK_CLS[t] or obj.commands != spk_commands(t, h):
        return f"ScriptPubKey.parse built {obj!r} for template {t}"
    if obj.address(NETS[net]) != ref_address(t, h, net):
        return f"address {obj.address(NETS[net])} differs from the reference {ref_address(t, h, net)}"
    return None


def p_p2tr_point(secret, net):
    """P2TRScriptPubKey built from a curve point: the address is the bech32m address of the point's x coordinate"""
    pt = pecc.PrivateKey(secret).point
    x = pt.x.num.to_bytes(32, "big") if hasattr(pt.x, "num") else int(pt.x).to_bytes(32, "big")
    spk = script.P2TRScriptPubKey(pt)
    if spk.commands != [0x51, x]:
        return f"P2TRScriptPubKey(point).commands = {spk.commands!r}"
    a = spk.address(NETS[net])
    if a != ref_address(4, x, net):
        return f"address {a} differs from the reference {ref_address(4, x, net)}"
    back = script.address_to_script_pubkey(a)
    if type(back) is not script.P2TRScriptPubKey or back.commands != spk.commands:
        return f"address_to_script_pubkey({a}) gives {back!r}"
    return None


# ---------------------------------------------------------------- histories: one object / one module, many calls
# Every step of a session is compared with the stateless references above, so a result that depends on an EARLIER
# call (a memo on a script or key object, a module-level cache keyed too coarsely, a value computed once in a
# constructor and never refreshed) shows up as a failing step. Sessions are built from "families" of nearly equal
# arguments (same payload / other network, same program / other version, same hash / other template, ...).

SPK_CLS = [script.P2PKHScriptPubKey, script.P2SHScriptPubKey, script.P2WPKHScriptPubKey,
           script.P2WSHScriptPubKey, script.P2TRScriptPubKey]
SPK_HPOS = [2, 1, 1, 1, 1]
B58PFX = [(b"\x00", b"\x6f"), (b"\x05", b"\xc4")]


def spk_commands(t, h):
    return [[0x76, 0xA9, h, 0x88, 0xAC], [0xA9, h, 0x87], [0, h], [0, h], [0x51, h]][t]


def ref_address(t, h, net):
    """reference address of template t with hash h on NETS[net]; None when the library must refuse"""
    if t in (0, 1):
        raw = B58PFX[t][0 if net == 0 else 1] + h
        return ref_b58enc(raw + h256(raw)[:4])
    if net not in HRP:
        return None
    return ref_segwit(HRP[net], 1 if t == 4 else 0, h)


def _try(f, *a, **kw):
    """ERR for a refusal (ValueError / RuntimeError); any other exception is a crash and compares unequal to ERR"""
    try:
        return f(*a, **kw)
    except CLEAN:
        return ERR
    except Exception as e:  # noqa
        if _is_timeout(e):
            raise
        return "crashed with " + type(e).__name__


def _sub(s, seg, pos, k):
    """s with one character replaced by the k-th other character of its alphabet; segwit strings are changed in
    the data part only, base58 strings anywhere but at the first character (which selects the address type)"""
    alpha = B32 if seg else B58
    start = (5 if s.startswith("bcrt") else s.index("1") + 1) if seg else 1
    pos = start + pos % (len(s) - start)
    others = [c for c in alpha if c != s[pos]]
    return s[:pos] + others[k % len(others)] + s[pos + 1:]


def _step(op, st):
    """one step of a session; st holds the long-lived objects. Returns (got, want)."""
    k = op[0]
    a = op[1:]
    if k == b"b58c":
        return _try(helper.encode_base58_checksum, a[0]), ref_b58enc(a[0] + h256(a[0])[:4])
    if k == b"b58e":
        return _try(helper.encode_base58, a[0]), (ref_b58enc(a[0]) if a[0] else ERR)
    if k in (b"b58r", b"b58d"):
        s = T(a[0])
        raw = ref_b58dec(s)
        ok = raw is not None and len(raw) >= 4 and h256(raw[:-4])[:4] == raw[-4:]
        if k == b"b58r":
            return _try(helper.raw_decode_base58, s), (raw[:-4] if ok else ERR)
        return _try(helper.decode_base58, s), (raw[:-4][1:] if ok else ERR)
    if k == b"segenc":
        ver, prog, net = a
        want = ref_segwit(HRP[net], ver, prog) if net in HRP else ERR
        return _try(bech32.encode_bech32_checksum, spk_bytes(ver, prog), NETS[net]), want
    if k == b"segdec":
        # variant 0: valid; 1: the other checksum constant; 2: one substitution; 3: two substitutions
        ver, prog, net, variant, p1, p2 = a
        hrp = HRP[net]
        s = ref_segwit(hrp, ver, prog)
        if variant == 1:
            s = ref_segwit(hrp, ver, prog, const=(0x2bc830a3 if ver == 0 else 1))
        elif variant >= 2:
            s = _sub(s, True, p1, p2)
            if variant == 3:
                s2 = _sub(s, True, p2, p1)
                s = s2 if sum(x != y for x, y in zip(s2, ref_segwit(hrp, ver, prog))) == 2 else s
        want = [{"bc": "mainnet", "tb": "testnet", "bcrt": "regtest"}[hrp], ver, prog] if variant == 0 else ERR
        return _try(bech32.decode_bech32, s), want
    if k in (b"a2s", b"toaddr"):
        t, h, net, corrupt, p1, p2 = a
        s = ref_address(t, h, net)
        if corrupt:
            s = _sub(s, t >= 2, p1, p2)
        if k == b"a2s":
            r = _try(script.address_to_script_pubkey, s)
            got = r if r is ERR else [SPK_CLS.index(type(r)) if type(r) in SPK_CLS else -1, r.commands]
            return got, (ERR if corrupt else [t, spk_commands(t, h)])
        r = _try(tx.TxOut.to_address, s, p1)
        got = r if r is ERR else [SPK_CLS.index(type(r.script_pubkey)) if type(r.script_pubkey) in SPK_CLS else -1,
                                  r.script_pubkey.commands, r.amount]
        return got, (ERR if corrupt else [t, spk_commands(t, h), p1])
    if k == b"cks":
        m, hrp, data = a
        pm = ref_polymod(ref_hrp(T(hrp)) + data + [0] * 6) ^ (0x2bc830a3 if m else 1)
        f = bech32.bech32m_create_checksum if m else bech32.bech32_create_checksum
        return _try(f, T(hrp), list(data)), [(pm >> 5 * (5 - i)) & 31 for i in range(6)]
    if k == b"ver":
        m, hrp, data = a
        f = bech32.bech32m_verify_checksum if m else bech32.bech32_verify_checksum
        return _try(f, T(hrp), list(data)), ref_polymod(ref_hrp(T(hrp)) + data) == (0x2bc830a3 if m else 1)
    if k == b"poly":
        return _try(bech32.bech32_polymod, list(a[0])), ref_polymod(a[0])
    if k == b"hrp":
        return _try(bech32.bech32_hrp_expand, T(a[0])), ref_hrp(T(a[0]))
    if k == b"g32":
        return _try(bech32.group_32, a[0]), (ref_conv(a[0], 8, 5, True) if a[0] else [0])
    # ---- long-lived scriptPubKey objects
    if k == b"spk":
        slot, t, h = a
        st["spk"][slot] = (t, SPK_CLS[t](h))
        st["h"][slot] = h
        return None, None
    if k in (b"addr", b"ser", b"edit", b"editc"):
        slot = a[0]
        t, obj = st["spk"][slot]
        if k == b"addr":
            want = ref_address(t, st["h"][slot], a[1])
            return _try(obj.address, NETS[a[1]]), (ERR if want is None else want)
        if k == b"ser":
            h = st["h"][slot]
            return _try(obj.raw_serialize), bytes(x for c in spk_commands(t, h)
                                                   for x in ([c] if isinstance(c, int) else bytes([len(c)]) + c))
        if k == b"edit":                       # the hash element is overwritten in place
            obj.commands[SPK_HPOS[t]] = a[1]
        else:                                  # the whole public field is replaced
            obj.commands = spk_commands(t, a[1])
        st["h"][slot] = a[1]
        return None, None
    # ---- long-lived private keys
    if k == b"key":
        slot, secret, net, comp = a
        st["key"][slot] = pecc.PrivateKey(secret, network=NETS[net], compressed=bool(comp))
        return None, None
    if k in (b"wif", b"wifd", b"knet", b"ksec", b"kcomp"):
        key = st["key"][a[0]]
        if k == b"knet":
            key.network = NETS[a[1]]
        elif k == b"ksec":
            key.secret = a[1]
        elif k == b"kcomp":
            key.compressed = bool(a[1])
        else:
            comp = True if k == b"wifd" else bool(a[1])        # wifd: the default argument
            raw = (b"\x80" if key.network == "mainnet" else b"\xef") + key.secret.to_bytes(32, "big") + \
                (b"\x01" if comp else b"")
            got = _try(key.wif) if k == b"wifd" else _try(key.wif, compressed=comp)
            return got, ref_b58enc(raw + h256(raw)[:4])
        return None, None
    # ---- entry-point audit: default arguments on long-lived objects, results derived from a source that is used again
    if k == b"addrd":                              # address() with the network argument OMITTED
        t, obj = st["spk"][a[0]]
        return _try(obj.address), ref_address(t, st["h"][a[0]], 0)
    if k == b"p2sh":                               # SegwitPubKey.p2sh_address (redeem_script() shares the command list)
        t, obj = st["spk"][a[0]]
        inner = ref_ser(spk_commands(t, st["h"][a[0]]))
        if t not in (2, 3):
            return None, None
        if a[1] < 0:
            return _try(obj.p2sh_address), ref_address(1, h160(inner), 0)
        return _try(obj.p2sh_address, NETS[a[1]]), ref_address(1, h160(inner), a[1])
    if k == b"scr":                                # a long-lived RedeemScript (0) / WitnessScript (1)
        slot, kind, cmds = a
        st["scr"][slot] = (kind, [script.RedeemScript, script.WitnessScript][kind](list(cmds)))
        st["cmds"][slot] = list(cmds)
        return None, None
    if k == b"sedit":                              # its commands replaced (0) / one element overwritten in place (1)
        slot, how, cmds = a
        kind, obj = st["scr"][slot]
        if how == 0 or len(cmds) != len(obj.commands):
            obj.commands = list(cmds)
        else:
            for i, c in enumerate(cmds):
                obj.commands[i] = c
        st["cmds"][slot] = list(cmds)
        return None, None
    if k == b"saddr":                              # which: 0 address, 1 p2sh_address (witness only); net -1: omitted
        slot, which, net = a
        kind, obj = st["scr"][slot]
        raw = ref_ser(st["cmds"][slot])
        if kind == 0:
            tt, hh = 1, h160(raw)
            f = obj.address
        elif which == 0:
            tt, hh = 3, hashlib.sha256(raw).digest()
            f = obj.address
        else:
            tt, hh = 1, h160(b"\x00\x20" + hashlib.sha256(raw).digest())
            f = obj.p2sh_address
        want = ref_address(tt, hh, max(net, 0))
        return (_try(f) if net < 0 else _try(f, NETS[net])), (ERR if want is None else want)
    if k == b"parse":
        secret, mainnet, comp = a
        raw = (b"\x80" if mainnet else b"\xef") + secret.to_bytes(32, "big") + (b"\x01" if comp else b"")
        r = _try(pecc.PrivateKey.parse, ref_b58enc(raw + h256(raw)[:4]))
        got = r if r is ERR else [r.secret, r.network, bool(r.compressed),
                                  _try(r.wif, compressed=bool(comp)), _try(r.wif, compressed=not comp)]
        raw2 = raw[:33] + (b"" if comp else b"\x01")
        return got, [secret, "mainnet" if mainnet else "testnet", bool(comp),
                     ref_b58enc(raw + h256(raw)[:4]), ref_b58enc(raw2 + h256(raw2)[:4])]
    raise ValueError("unknown step %r" % (k,))


def _show(v):
    return "an exception" if v is ERR else repr(v)[:120]


def p_history(ops):
    """a sequence of calls on the same module functions / the same script and key objects: every result equals
    the stateless reference for the CURRENT arguments and fields"""
    from vp.sexp import canon
    st = {"spk": {}, "key": {}, "h": {}, "scr": {}, "cmds": {}}
    for i, op in enumerate(ops):
        got, want = _step(op, st)
        if got is ERR and want is ERR:
            continue
        if got is ERR or want is ERR or canon(got) != canon(want):
            return (f"step {i} {op[0].decode()}: got {_show(got)}, the reference for the current arguments/fields gives "
                    f"{_show(want)} — after {i} earlier call(s)/edit(s) in this session")
    return None


# ---------------------------------------------------------------- lenient digit decoding: characters outside the alphabet
# A digit loop that looks a character up WITHOUT rejecting the ones it does not find (str.find -> -1, dict.get(c, 0), a
# table padded with the alphabet length, ord() arithmetic, case folding, look-alike mapping, skipping blanks) changes
# nothing for texts over the alphabet, and a foreign character put into a valid text at random still fails the
# checksum.  What such a loop accepts are texts in which the foreign character is COMPENSATED by the characters around
# it (base 58: "Az" = a*58+57 = (a+1)*58-1 = "B0" when '0' counts as -1; bech32: the checksum recomputed with the value
# the loop gives to the character).  The functions below are independent models of that family - reading(c) is the
# value a lenient loop gives to a character outside the alphabet, None when it skips it - used only to CONSTRUCT
# texts and to make sure that a lenient decoder really would accept them; the expectation is always: rejected.

NA = "n/a"          # this reading gives the character no value: no text to build


def lenient_b58(s, reading):
    """bytes (payload + checksum) that a base58 digit loop with this reading computes, None if it cannot"""
    num = z = 0
    for c in s:
        if num == 0 and c == "1":
            z += 1
            continue
        if c in B58:
            v = B58.index(c)
        else:
            v = reading(c)
            if v is None:
                continue
            if v == NA:
                return None
        num = 58 * num + v
    if num < 0:
        return None
    return b"\x00" * z + num.to_bytes((num.bit_length() + 7) // 8, "big")


def _digits58(n, width=0):
    out = ""
    while n:
        n, d = divmod(n, 58)
        out = B58[d] + out
    return out.rjust(width, "1")


def b58_forgeries(s, c, reading, r, want=2):
    """texts containing the foreign character c that have, under the reading, the bytes of the valid text s"""
    raw = ref_b58dec(s)
    v = reading(c)
    if v == NA:
        return []
    z = len(s) - len(s.lstrip("1"))
    body = s[z:]
    n = len(body)
    cand = []
    if v is None:                      # skipped: put it anywhere
        spots = {0, z, len(s), z // 2, r.randrange(len(s) + 1), r.randrange(len(s) + 1)}
        for p in sorted(spots):
            cand.append(s[:p] + c * r.choice([1, 1, 2]) + s[p:])
    else:
        val = 0
        for ch in body:
            val = val * 58 + B58.index(ch)
        pw = 1
        for k in range(n):             # k: power of 58 of the position taken by the foreign character
            w = val - v * pw
            if w >= 0:
                high, low = divmod(w, pw * 58)
                if low < pw:           # digit k of w is 0: the foreign character can stand there
                    cand.append("1" * z + _digits58(high) + c + _digits58(low, k))
            pw *= 58
    good = [t for t in cand if t != s and any(x not in B58 for x in t) and lenient_b58(t, reading) == raw]
    if len(good) > want:               # lowest position, highest position, then random ones
        good = [good[0], good[-1]] + r.sample(good[1:-1], want - 2) if want >= 2 else [r.choice(good)]
    return good[:want]


def lenient_segdec(s, reading):
    """ref_segdec with a lenient symbol lookup (and the arithmetic of a decoder that never looks at the symbols again)"""
    for hrp in ("bcrt", "bc", "tb"):
        if s.startswith(hrp + "1"):
            d = s[len(hrp) + 1:]
            break
    else:
        return None
    data = []
    for c in d:
        v = B32.index(c) if c in B32 else reading(c)
        if v == NA:
            return None
        if v is not None:
            data.append(v)
    if len(data) < 7 or ref_polymod(ref_hrp(hrp) + data) != (1 if data[0] == 0 else 0x2bc830a3):
        return None
    body = data[1:-6]
    pad = 5 * len(body) % 8
    val = 0
    for x in body:
        val = val * 32 + x
    nbytes = 5 * len(body) // 8
    if pad > 4 or val & ((1 << pad) - 1) or not 2 <= nbytes <= 40 or not 0 <= val >> pad < 256 ** nbytes:
        return None
    return [SEG_NET[hrp], data[0], (val >> pad).to_bytes(nbytes, "big")]


def seg_forgery(hrp, ver, prog, p, c, reading):
    """the address text of (ver, prog) with the data symbol at p replaced by the foreign character c and the checksum
    recomputed with the value the reading gives to c; None unless a lenient decoder accepts it"""
    v = reading(c)
    if v == NA:
        return None
    data = [ver] + ref_conv(prog, 8, 5, True)
    p %= len(data)
    if v is None:
        vals, chars = list(data), [B32[x] for x in data]
        chars.insert(p, c)
    else:
        vals = data[:p] + [v] + data[p + 1:]
        chars = [B32[x] for x in data]
        chars[p] = c
    const = 1 if vals[0] == 0 else 0x2bc830a3
    pm = ref_polymod(ref_hrp(hrp) + vals + [0] * 6) ^ const
    t = hrp + "1" + "".join(chars) + "".join(B32[(pm >> 5 * (5 - i)) & 31] for i in range(6))
    return t if lenient_segdec(t, reading) is not None else None


def ref_bc32(data):
    dd = ref_conv(data, 8, 5, True)
    pm = ref_polymod([0] + dd + [0] * 6) ^ 0x3fffffff
    return "".join(B32[x] for x in dd + [(pm >> 5 * (5 - i)) & 31 for i in range(6)])


def bc32_forgery(data, p, c, reading):
    v = reading(c)
    if v == NA:
        return None
    dd = ref_conv(data, 8, 5, True)
    p %= len(dd)
    chars = [B32[x] for x in dd]
    if v is None:
        vals = list(dd)
        chars.insert(p, c)
    else:
        vals = dd[:p] + [v] + dd[p + 1:]
        chars[p] = c
    pm = ref_polymod([0] + vals + [0] * 6) ^ 0x3fffffff
    return "".join(chars) + "".join(B32[(pm >> 5 * (5 - i)) & 31] for i in range(6))


XVER = {(1, 1): "0488ade4", (1, 0): "04358394", (0, 1): "0488b21e", (0, 0): "043587cf"}     # (private, mainnet)
CURVE_X = [0x79BE667EF9DCBBAC55A06295CE870B07029BFCDB2DCE28D959F2815B16F81798,               # x of G, 2G, 3G
           0xC6047F9441ED7D6D3045406E95C07CD85C778E4B8CEF3CA7ABAC09B95C709EE5,
           0xF9308A019258C31049344F85F89D5229B531C845836F99B08601F113BCE036F9]


def ref_xkey_text(private, mainnet, depth, fp, child, chain, key):
    """extended key text (BIP32 serialisation): key is a secret (private) or an index into CURVE_X (public)"""
    k = (b"\x00" + key.to_bytes(32, "big")) if private else (b"\x02" + CURVE_X[key % 3].to_bytes(32, "big"))
    raw = bytes.fromhex(XVER[(private, mainnet)]) + bytes([depth]) + fp + child.to_bytes(4, "big") + chain + k
    return ref_b58enc(raw + h256(raw)[:4])


def p_xkey_valid(sb, private):
    """non-vacuity of the extended-key cases: the reference-built twin of the forged texts IS accepted and
    serialises back to itself"""
    from buidl import hd
    s = T(sb)
    try:
        back = hd.HDPrivateKey.parse(s).xprv() if private else hd.HDPublicKey.parse(s).xpub()
    except Exception as e:  # noqa
        if _is_timeout(e):
            raise
        return f"the valid extended key {s!r} is rejected ({type(e).__name__}: {str(e)[:60]})"
    return None if back == s else f"the extended key {s!r} parses but serialises to {back!r}"


def p_foreign_rejected(sb):
    """a text with a character outside the base58 alphabet / outside the lower-case bech32 alphabet in its data part:
    every decoder of the property rejects it (text_iff: cleanly, per the independent decoders), and so do the
    extended-key parsers, which read their text with the same base58 loop"""
    from buidl import hd
    s = T(sb)
    d = p_text_iff(sb)
    if d:
        return d
    if ref_b58dec(s) is None:
        for name, f in (("HDPrivateKey.parse", lambda x: hd.HDPrivateKey.parse(x).xprv()),
                        ("HDPublicKey.parse", lambda x: hd.HDPublicKey.parse(x).xpub())):
            k, got = _outcome(f, s)
            d = _judge(name, s, k, got, None)
            if d:
                return d
    return None


def p_bc32_foreign(data, forged):
    """bc32 (the bech32 alphabet without a human-readable part): the reference encoding of data decodes to data, and
    a text with a character that is not in the alphabet (whatever value a lenient lookup would give it, checksum
    recomputed accordingly) gives None"""
    good = ref_bc32(data)
    if bech32.bc32decode(good) != data:
        return f"bc32decode({good!r}) is not the encoded data"
    s = T(forged)
    low = s.lower() if (s.lower() == s or s.upper() == s) else s
    if all(c in B32 for c in low) and low:
        return None                     # not a foreign-character text after all
    try:
        got = bech32.bc32decode(s)
    except Exception as e:  # noqa
        if _is_timeout(e):
            raise
        return f"bc32decode({s!r}) raises {type(e).__name__} instead of returning None"
    return None if got is None else f"bc32decode accepts {s!r}, which has a character outside the alphabet: {got!r}"


# ---------------------------------------------------------------- entry-point audit
# Public entry points of the anchored files that reach the codecs by ANOTHER route than the functions above
# (S256Point.address / p2wpkh_address / p2sh_p2wpkh_address / p2tr_address, RedeemScript.create_p2sh_multisig with
# expected_addr, RedeemScript.convert / WitnessScript.convert, Tx.find_utxos), every DEFAULT argument of the address /
# WIF functions (network="mainnet", compressed=True, expected_addr_network="mainnet", expected_addr=None), called after
# the same object was used with other arguments, and texts of unusual character classes.  Expectations come from the
# reference encoders of this module only.

FP = 2 ** 256 - 2 ** 32 - 977


def ref_pt(i, parity):
    """(x, y) of +-G, +-2G, +-3G: y is the square root of x^3 + 7 with the wanted parity"""
    x = CURVE_X[i % 3]
    y = pow((pow(x, 3, FP) + 7) % FP, (FP + 1) // 4, FP)
    return x, (y if y % 2 == parity else FP - y)


def _checks(checks):
    for name, f, want in checks:
        got = _try(f)
        if want is None:
            if got is not ERR:
                return f"{name} = {_show(got)} for a network it must refuse with ValueError/RuntimeError"
        elif got is ERR or got != want:
            return f"{name} = {_show(got)}, reference {want!r}"
    return None


def p_point_addresses(i, parity, net, tr):
    """the address helpers of a public key: each equals the reference address of the reference hash of the reference
    SEC encoding, for the network given by keyword / by position / omitted (= mainnet), in this order on ONE object"""
    x, y = ref_pt(i, parity)
    pt = pecc.S256Point(x, y)
    xb = x.to_bytes(32, "big")
    hc = h160(bytes([2 + parity]) + xb)
    hu = h160(b"\x04" + xb + y.to_bytes(32, "big"))
    nested = h160(b"\x00\x14" + hc)
    name = NETS[net]
    checks = [("address(compressed=True, network=%r)" % name, lambda: pt.address(compressed=True, network=name), ref_address(0, hc, net)),
              ("address(compressed=False, network=%r)" % name, lambda: pt.address(compressed=False, network=name), ref_address(0, hu, net)),
              ("address(False, %r)" % name, lambda: pt.address(False, name), ref_address(0, hu, net)),
              ("address(True, %r)" % name, lambda: pt.address(True, name), ref_address(0, hc, net)),
              ("address(network=%r)" % name, lambda: pt.address(network=name), ref_address(0, hc, net)),
              ("address()", lambda: pt.address(), ref_address(0, hc, 0)),
              ("address(False)", lambda: pt.address(False), ref_address(0, hu, 0)),
              ("p2wpkh_address(%r)" % name, lambda: pt.p2wpkh_address(name), ref_address(2, hc, net)),
              ("p2wpkh_address()", lambda: pt.p2wpkh_address(), ref_address(2, hc, 0)),
              ("p2wpkh_address(network=%r)" % name, lambda: pt.p2wpkh_address(network=name), ref_address(2, hc, net)),
              ("p2sh_p2wpkh_address(%r)" % name, lambda: pt.p2sh_p2wpkh_address(name), ref_address(1, nested, net)),
              ("p2sh_p2wpkh_address()", lambda: pt.p2sh_p2wpkh_address(), ref_address(1, nested, 0)),
              ("address(True, %r) again" % name, lambda: pt.address(True, name), ref_address(0, hc, net))]
    if tr:
        # the tweaked output key is C11's; here: p2tr_address is the bech32m address of the program of p2tr_script
        # with the same arguments, on the network asked for / on mainnet when omitted
        mr = h256(xb)
        for label, args in (("", ()), ("merkle_root, ", (mr,))):
            prog = pt.p2tr_script(*args).commands[1]
            if not (isinstance(prog, bytes) and len(prog) == 32):
                return f"p2tr_script({label}).commands = {pt.p2tr_script(*args).commands!r}"
            checks.append(("p2tr_address(%snetwork=%r)" % (label, name), (lambda a=args: pt.p2tr_address(*a, network=name)),
                           ref_address(4, prog, net)))
            checks.append(("p2tr_address(%s)" % label, (lambda a=args: pt.p2tr_address(*a)), ref_address(4, prog, 0)))
        prog = pt.p2tr_script(mr).commands[1]
        checks.append(("p2tr_address(merkle_root, None, %r)" % name, lambda: pt.p2tr_address(mr, None, name), ref_address(4, prog, net)))
    return _checks(checks)


def p_defaults(t, h, net, cmds):
    """every omitted network argument means mainnet - also right after the same object / function was used with another
    network - and an omitted compressed flag means compressed"""
    cmds = list(cmds)
    name = NETS[net]
    obj = SPK_CLS[t](h)
    raw = ref_ser(cmds)
    s256 = hashlib.sha256(raw).digest()
    rs, ws = script.RedeemScript(list(cmds)), script.WitnessScript(list(cmds))
    checks = [("%s.address(%r)" % (SPK_CLS[t].__name__, name), lambda: obj.address(name), ref_address(t, h, net)),
              ("%s.address()" % SPK_CLS[t].__name__, lambda: obj.address(), ref_address(t, h, 0)),
              ("%s.address(network=%r)" % (SPK_CLS[t].__name__, name), lambda: obj.address(network=name), ref_address(t, h, net)),
              ("RedeemScript.address(%r)" % name, lambda: rs.address(name), ref_address(1, h160(raw), net)),
              ("RedeemScript.address()", lambda: rs.address(), ref_address(1, h160(raw), 0)),
              ("WitnessScript.address(%r)" % name, lambda: ws.address(name), ref_address(3, s256, net)),
              ("WitnessScript.address()", lambda: ws.address(), ref_address(3, s256, 0)),
              ("WitnessScript.p2sh_address(%r)" % name, lambda: ws.p2sh_address(name), ref_address(1, h160(b"\x00\x20" + s256), net)),
              ("WitnessScript.p2sh_address()", lambda: ws.p2sh_address(), ref_address(1, h160(b"\x00\x20" + s256), 0)),
              ("WitnessScript.address(network=%r)" % name, lambda: ws.address(network=name), ref_address(3, s256, net)),
              # the same addresses by the other public route: script_pubkey() / redeem_script() first
              ("RedeemScript.script_pubkey().address(%r)" % name, lambda: rs.script_pubkey().address(name),
               ref_address(1, h160(raw), net)),
              ("WitnessScript.script_pubkey().address(%r)" % name, lambda: ws.script_pubkey().address(name),
               ref_address(3, s256, net)),
              ("WitnessScript.script_pubkey().p2sh_address(%r)" % name, lambda: ws.script_pubkey().p2sh_address(name),
               ref_address(1, h160(b"\x00\x20" + s256), net)),
              ("WitnessScript.script_pubkey().redeem_script().address()", lambda: ws.script_pubkey().redeem_script().address(),
               ref_address(1, h160(b"\x00\x20" + s256), 0))]
    if t >= 2:
        sb = ref_ser(spk_commands(t, h))
        checks += [("encode_bech32_checksum(s, %r)" % name, lambda: bech32.encode_bech32_checksum(sb, name), ref_address(t, h, net)),
                   ("encode_bech32_checksum(s)", lambda: bech32.encode_bech32_checksum(sb), ref_address(t, h, 0)),
                   ("encode_bech32_checksum(s, network=%r)" % name, lambda: bech32.encode_bech32_checksum(sb, network=name),
                    ref_address(t, h, net))]
    if t in (2, 3):
        inner = h160(ref_ser(spk_commands(t, h)))
        checks += [("p2sh_address(%r)" % name, lambda: obj.p2sh_address(name), ref_address(1, inner, net)),
                   ("p2sh_address()", lambda: obj.p2sh_address(), ref_address(1, inner, 0)),
                   ("address(%r) after p2sh_address" % name, lambda: obj.address(name), ref_address(t, h, net))]
    d = _checks(checks)
    if d:
        return d
    # default-CONSTRUCTED scripts (no commands given): each has its own, empty command list
    a, wa = script.RedeemScript(), script.WitnessScript()
    a.commands.append(0x51)
    wa.commands.append(0x52)
    b, wb = script.RedeemScript(), script.WitnessScript()
    e256 = hashlib.sha256(b"").digest()
    return _checks([("RedeemScript().address(%r) (after another RedeemScript() was filled)" % name, lambda: b.address(name),
                     ref_address(1, h160(b""), net)),
                    ("WitnessScript().address(%r) (after another WitnessScript() was filled)" % name, lambda: wb.address(name),
                     ref_address(3, e256, net)),
                    ("WitnessScript().p2sh_address()", lambda: wb.p2sh_address(), ref_address(1, h160(b"\x00\x20" + e256), 0)),
                    ("RedeemScript() + OP_1 .address()", lambda: a.address(), ref_address(1, h160(b"\x51"), 0)),
                    ("WitnessScript() + OP_2 .address(%r)" % name, lambda: wa.address(name),
                     ref_address(3, hashlib.sha256(b"\x52").digest(), net))])


def p_key_defaults(secret, net):
    """PrivateKey(secret): network mainnet, compressed; wif() with the flag omitted is the compressed form; a key made
    for another network right before does not change that"""
    other = pecc.PrivateKey(secret, NETS[net], False)            # positional: (secret, network, compressed)
    key = pecc.PrivateKey(secret)
    if (key.network, key.compressed) != ("mainnet", True) or (other.network, other.compressed) != (NETS[net], False):
        return f"PrivateKey(secret) has network {key.network!r}, compressed {key.compressed!r}; PrivateKey(secret, {NETS[net]!r}, False) has {other.network!r}, {other.compressed!r}"
    return _checks([("PrivateKey(s, %r, False).wif()" % NETS[net], lambda: other.wif(), ref_wif_text(secret, net == 0, True)),
                    ("PrivateKey(s).wif()", lambda: key.wif(), ref_wif_text(secret, True, True)),
                    ("PrivateKey(s).wif(False)", lambda: key.wif(False), ref_wif_text(secret, True, False)),
                    ("PrivateKey(s, %r, False).wif(compressed=False)" % NETS[net], lambda: other.wif(compressed=False),
                     ref_wif_text(secret, net == 0, False)),
                    ("PrivateKey(s).wif() again", lambda: key.wif(), ref_wif_text(secret, True, True))])


def p_multisig_expected(m, keys, sort, net, variant):
    """RedeemScript.create_p2sh_multisig(..., expected_addr, expected_addr_network): succeeds exactly when expected_addr
    is the reference P2SH address of the reference script on that network (mainnet when the network is omitted)"""
    keys = list(keys)
    ordered = sorted(keys) if sort else keys
    cmds = [0x50 + m] + ordered + [0x50 + len(keys), 0xAE]
    raw = ref_ser(cmds)
    addr = ref_address(1, h160(raw), net)
    kw = {"expected_addr": addr, "expected_addr_network": NETS[net]}
    ok = True
    if variant == 1:                                   # network omitted: compared with the MAINNET address
        del kw["expected_addr_network"]
        ok = net == 0
    elif variant == 2:                                 # the address of the keys in another order
        other = [0x50 + m] + ordered[::-1] + [0x50 + len(keys), 0xAE]
        kw["expected_addr"] = ref_address(1, h160(ref_ser(other)), net)
        ok = other == cmds
    elif variant == 3:                                 # one character of the address replaced
        kw["expected_addr"] = _sub(addr, False, m + len(raw), raw[-3])
        ok = False
    elif variant == 4:                                 # the right script on the wrong network class
        kw["expected_addr"] = ref_address(1, h160(raw), 1 if net == 0 else 0)
        ok = False
    elif variant == 5:                                 # the P2WSH / P2SH-P2WSH address of the same script
        s256 = hashlib.sha256(raw).digest()
        kw["expected_addr"] = ref_address(3, s256, net) if m % 2 else ref_address(1, h160(b"\x00\x20" + s256), net)
        ok = False
    elif variant == 6:                                 # nothing expected
        kw = {}
    elif variant == 7:                                 # network given, address omitted: nothing to compare
        kw = {"expected_addr_network": NETS[net]}
    try:
        rs = script.RedeemScript.create_p2sh_multisig(m, [k.hex() for k in keys], sort_keys=bool(sort), **kw)
    except ValueError:
        return None if not ok else f"create_p2sh_multisig refuses the reference address {kw.get('expected_addr')!r} ({kw!r})"
    except Exception as e:  # noqa
        if _is_timeout(e):
            raise
        return f"create_p2sh_multisig raises {type(e).__name__} ({kw!r})"
    if not ok:
        return f"create_p2sh_multisig accepts expected_addr {kw.get('expected_addr')!r} ({kw!r}); the script's address is {addr!r}"
    if rs.commands != cmds or _try(rs.address, NETS[net]) != addr:
        return f"create_p2sh_multisig built {rs.commands!r} with address {_try(rs.address, NETS[net])!r}, reference {addr!r}"
    return None


def p_script_convert(cmds, net):
    """RedeemScript.convert(raw) / WitnessScript.convert(raw): the addresses are those of the hash of raw"""
    raw = ref_ser(list(cmds))
    s256 = hashlib.sha256(raw).digest()
    name = NETS[net]
    return _checks([("RedeemScript.convert(raw).address(%r)" % name,
                     lambda: _quiet(script.RedeemScript.convert, raw).address(name), ref_address(1, h160(raw), net)),
                    ("WitnessScript.convert(raw).address(%r)" % name,
                     lambda: _quiet(script.WitnessScript.convert, raw).address(name), ref_address(3, s256, net)),
                    ("WitnessScript.convert(raw).p2sh_address(%r)" % name,
                     lambda: _quiet(script.WitnessScript.convert, raw).p2sh_address(name),
                     ref_address(1, h160(b"\x00\x20" + s256), net)),
                    ("RedeemScript.convert(raw).address()", lambda: _quiet(script.RedeemScript.convert, raw).address(),
                     ref_address(1, h160(raw), 0))])


def p_find_utxos(outs, net, pick, corrupt):
    """Tx.find_utxos(address) (the caller of decode_base58): exactly the outputs paying to the address's hash, each with
    ITS index and ITS amount; a text with a wrong checksum is rejected.  outs: [template 0/1, hash160, amount]"""
    outs = [list(o) for o in outs]
    tx_outs = [tx.TxOut(a, SPK_CLS[t](h)) for t, h, a in outs]
    obj = tx.Tx(1, [], tx_outs, 0, network=NETS[net])
    ser = (1).to_bytes(4, "little") + b"\x00" + bytes([len(outs)])
    for t, h, a in outs:
        sp = ref_ser(spk_commands(t, h))
        ser += a.to_bytes(8, "little") + bytes([len(sp)]) + sp
    ser += bytes(4)
    txid = h256(ser)[::-1]
    t, h, _ = outs[pick % len(outs)]
    addr = ref_address(t, h, net)
    if corrupt:
        addr = _sub(addr, False, corrupt, pick)
    k, got = _outcome(obj.find_utxos, addr)
    if corrupt:
        return None if k == "rejected" else f"find_utxos({addr!r}) (wrong checksum): {got!r}"
    if k != "value":
        return f"find_utxos({addr!r}) {got if k == 'crash' else 'rejects the valid address'}"
    want = [(txid, i, a) for i, (t2, h2, a) in enumerate(outs) if (t2, h2) == (t, h)]
    got = [tuple(x) for x in got]
    if got != want:
        if got == [(txid, i, a) for i, (t2, h2, a) in enumerate(outs) if h2 == h]:
            return (f"find_utxos({addr!r}) also returns the outputs of the OTHER template with the same hash "
                    f"(version byte of the address ignored): {got!r}, reference {want!r}")
        return f"find_utxos({addr!r}) = {got!r}, reference {want!r}"
    return None


K_FIND_UTXOS = "K-C09-find-utxos-ignores-address-type"


def classify(v):
    return None


def _registered(key):
    """is this key in KNOWN_FINDINGS.json / findings/C09.json?  (cases of a known finding are generated only then)"""
    import json
    import os
    root = os.path.dirname(os.path.dirname(os.path.dirname(os.path.abspath(__file__))))
    for path in (os.path.join(root, "KNOWN_FINDINGS.json"), os.path.join(root, "findings", PID + ".json")):
        try:
            if any(f.get("key") == key and f.get("status") == "known" for f in json.load(open(path)).get("findings", [])):
                return True
        except (OSError, ValueError):
            pass
    return False


def p_charclass(sb, cls):
    """a VALID text of an unusual character class (data part / whole text made of digits only, of letters only, of one
    case): the class is what it is said to be, the independent decoders accept it, and every decoder of the property
    agrees with them (text_iff)"""
    s = T(sb)
    data = s[s.index("1") + 1:] if cls.startswith(b"seg") else s
    body = data[1:] if cls in (b"seg-digits-after-version",) else data
    ok = {b"seg-digits": body.isdigit(), b"seg-digits-after-version": body.isdigit(), b"seg-letters": body.isalpha(),
          b"b58-letters": body.isalpha()}[cls]
    if not ok:
        return f"harness: {s!r} is not of class {cls.decode()}"
    if cls.startswith(b"seg"):
        if ref_segdec(s) is None:
            return f"harness: {s!r} is not a valid segwit text"
    else:
        raw = ref_b58dec(s)
        if raw is None or len(raw) < 4 or h256(raw[:-4])[:4] != raw[-4:]:
            return f"harness: {s!r} is not a valid Base58Check text"
    d = p_text_iff(sb)
    if d:
        return d
    return p_decode_encode(sb)


PROPS = {"point_addresses": p_point_addresses, "defaults": p_defaults, "key_defaults": p_key_defaults,
         "multisig_expected": p_multisig_expected, "script_convert": p_script_convert, "find_utxos": p_find_utxos,
         "charclass": p_charclass,
         "decode_encode": p_decode_encode, "parsers_only_addresses": p_parsers_only_addresses,
         "foreign_rejected": p_foreign_rejected, "xkey_valid": p_xkey_valid, "bc32_foreign": p_bc32_foreign,
         "wif_only_wif": p_wif_only_wif, "script_entry_points": p_script_entry_points,
         "spk_bytes_rt": p_spk_bytes_rt,
         "b58_rt": p_b58_rt, "b58_accept_iff": p_b58_accept_iff, "segwit_rt": p_segwit_rt,
         "segwit_sub1": p_segwit_sub1, "segwit_sub2": p_segwit_sub2, "group32": p_group32,
         "spk_addr": p_spk_addr, "to_address": p_to_address, "addr_distinct": p_addr_distinct, "wif_rt": p_wif_rt,
         "history": p_history, "text_iff": p_text_iff, "encode_refuses": p_encode_refuses,
         "spk_stream": p_spk_stream, "p2tr_point": p_p2tr_point, "ctor_refuses": p_ctor_refuses}


# ---- per-case time limit.  Every case of this property takes milliseconds (a key: ~0.1 s).  A non-terminating loop in
# the library (e.g. the digit loop of raw_decode_base58) must surface within seconds and must not be swallowed by an
# `except Exception` of a predicate that is looking for a rejection: the alarm raises a BaseException, which is turned
# into the engine's ImplTimeout (counted there; repeated timeouts end the run with the violation found so far).
CASE_LIMIT_S = 20


class _CaseTimeout(BaseException):
    pass


def _on_alarm(signum, frame):
    raise _CaseTimeout()


def _limited(f):
    import signal

    def g(*a):
        signal.signal(signal.SIGALRM, _on_alarm)
        signal.setitimer(signal.ITIMER_REAL, CASE_LIMIT_S)
        try:
            return f(*a)
        except _CaseTimeout:
            from vp.core import ImplTimeout
            raise ImplTimeout() from None
        finally:
            signal.setitimer(signal.ITIMER_REAL, 0)
    return g


IMPL = {k: _limited(v) for k, v in IMPL.items()}
PROPS = {k: _limited(v) for k, v in PROPS.items()}


# ---------------------------------------------------------------- generators


def payloads(ctx, n):
    """payload classes of length n: random, zero runs, all zero, all 0xff"""
    r = ctx.rng
    out = [ctx.rbytes(n)]
    if n:
        out.append(bytes(n))
        out.append(b"\xff" * n)
        k = r.randrange(1, n + 1)
        out.append(bytes(k) + ctx.rbytes(n - k))
        out.append(b"\x00" + ctx.rbytes(n - 1))
        out.append(ctx.rbytes(n - 1) + b"\x00")
    return out


def _mix(r, ops, repeat=0.35):
    """order-preserving merge is not wanted here: shuffle the queries, then repeat some of them later on"""
    ops = list(ops)
    r.shuffle(ops)
    for op in list(ops):
        if r.random() < repeat:
            ops.insert(r.randrange(len(ops) + 1), op)
    return ops


def fam_b58(ctx):
    """base58 calls on payloads that differ only in leading zeros / length / one byte, and on their strings"""
    r = ctx.rng
    n = r.choice([1, 4, 20, 21, 33, 34, r.randrange(1, 83)])
    b = ctx.rbytes(n)
    fam = [b, b"\x00" + b, b"\x00\x00" + b, b[:-1], b + b"\x00", bytes(n), b[:-1] + bytes([b[-1] ^ 1]), b[1:], b""]
    ops = []
    for x in fam:
        ops.append([b"b58c", x])
        ops.append([b"b58e", x])
        good = ref_b58enc(x + h256(x)[:4])
        ops.append([b"b58r", good.encode()])
        ops.append([b"b58d", good.encode()])
        bad = _sub(good, False, r.randrange(100), r.randrange(57)) if len(good) > 1 else good + "2"
        ops.append([r.choice([b"b58r", b"b58d"]), bad.encode()])
        ops.append([b"b58r", ref_b58enc(x).encode()])          # no checksum appended
    return _mix(r, ops)


def fam_seg(ctx):
    """the same witness program under several versions and networks, encoded and decoded in every order"""
    r = ctx.rng
    progs = [ctx.rbytes(r.choice([2, 20, 32, 40, r.randrange(2, 41)]))]
    progs.append(progs[0][:-1] + bytes([progs[0][-1] ^ 0x80]))
    ops = []
    for prog in progs:
        for ver in r.sample(range(17), 3) + [0, 1]:
            for net in range(4):
                ops.append([b"segenc", ver, prog, net])
                ops.append([b"segdec", ver, prog, net, r.choice([0, 0, 0, 1, 2, 3]), r.randrange(100), r.randrange(31)])
            ops.append([b"segenc", ver, prog, 4])
            ops.append([b"segdec", ver, prog, r.randrange(4), 1, 0, 0])
    return _mix(r, r.sample(ops, min(len(ops), 60)))


def fam_spk(ctx):
    """long-lived scriptPubKey objects sharing one hash: address() for every network in every order, with the
    hash edited in place (element overwritten / commands replaced) between the calls"""
    r = ctx.rng
    h32 = ctx.rbytes(32)
    slots = r.sample(range(5), r.choice([2, 3, 5]))
    ops = [[b"spk", i, t, h32[:20] if t < 3 else h32] for i, t in enumerate(slots)]
    for _ in range(r.randrange(25, 45)):
        i = r.randrange(len(slots))
        t = slots[i]
        k = r.random()
        if k < 0.08:
            ops.append([b"addrd", i])                                  # network argument omitted
        elif k < 0.16 and t in (2, 3):
            ops.append([b"p2sh", i, r.choice([-1, 0, 1, 2, 3, 4])])    # derived redeem script; the source is used again later
        elif k < 0.55:
            ops.append([b"addr", i, r.choice([0, 0, 1, 1, 2, 3, 4])])
        elif k < 0.65:
            ops.append([b"ser", i])
        elif k < 0.85:
            hn = r.choice([h32, ctx.rbytes(32), bytes(32), h32[:-1] + bytes([h32[-1] ^ 1])])
            ops.append([r.choice([b"edit", b"editc"]), i, hn[:20] if t < 3 else hn])
        else:
            hh = h32[:20] if t < 3 else h32
            net = r.randrange(4)
            ops.append([r.choice([b"a2s", b"toaddr"]), t, hh, net, int(r.random() < 0.3), r.randrange(100), r.randrange(57)])
        if r.random() < 0.3 and ops[-1][0] == b"addr":
            ops.append(list(ops[-1]))                                  # the same call twice in a row
    # close with every network on every object: whatever was remembered must not leak into these
    for i in range(len(slots)):
        for net in r.sample(range(4), 4):
            ops.append([b"addr", i, net])
    return ops


def fam_addr(ctx):
    """address_to_script_pubkey / TxOut.to_address on the addresses of ONE hash under all templates and networks"""
    r = ctx.rng
    h32 = ctx.rbytes(32)
    ops = []
    for t in range(5):
        for net in range(4):
            hh = h32[:20] if t < 3 else h32
            for k in (b"a2s", b"toaddr"):
                ops.append([k, t, hh, net, 0, r.randrange(1, 2 ** 40), 0])
                if r.random() < 0.4:
                    ops.append([k, t, hh, net, 1, r.randrange(100), r.randrange(57)])
    return _mix(r, r.sample(ops, 40), 0.25)


def fam_key(ctx):
    """one PrivateKey object: wif() for both compression flags and after network / secret edits, in every order"""
    r = ctx.rng
    secs = [r.randrange(1, N), r.choice([1, 255, 2 ** 248, N - 1, r.getrandbits(200) + 1])]
    ops = [[b"key", 0, secs[0], r.randrange(4), r.randrange(2)], [b"key", 1, secs[1], r.randrange(4), r.randrange(2)]]
    for _ in range(r.randrange(20, 35)):
        i = r.randrange(2)
        k = r.random()
        if k < 0.5:
            ops.append([b"wif", i, r.randrange(2)])
        elif k < 0.6:
            ops.append([b"wifd", i])
        elif k < 0.8:
            ops.append([b"knet", i, r.choice([0, 1, 2, 3, 4])])
        elif k < 0.87:
            ops.append([b"kcomp", i, r.randrange(2)])
        elif k < 0.94:
            ops.append([b"ksec", i, r.choice(secs + [r.randrange(1, N)])])
        else:
            ops.append([b"parse", r.choice(secs), r.randrange(2), r.randrange(2)])
    for i in range(2):
        for c in r.sample([0, 1], 2):
            ops.append([b"wif", i, c])
    return ops


def fam_prim(ctx):
    """checksum primitives on the same data under both constants and several prefixes"""
    r = ctx.rng
    data = [r.randrange(32) for _ in range(r.randrange(1, 60))]
    d2 = list(data)
    d2[r.randrange(len(d2))] ^= r.randrange(1, 32)
    ops = []
    for hrp in (b"bc", b"tb", b"bcrt", b"cb"):
        ops.append([b"hrp", hrp])
        for m in (0, 1):
            for d in (data, d2, data[::-1], data[:-1]):
                ops.append([b"cks", m, hrp, d])
                pm = ref_polymod(ref_hrp(T(hrp)) + d + [0] * 6) ^ (0x2bc830a3 if m else 1)
                full = d + [(pm >> 5 * (5 - i)) & 31 for i in range(6)]
                ops.append([b"ver", m, hrp, full])
                ops.append([b"ver", 1 - m, hrp, full])
                ops.append([b"ver", m, r.choice([b"bc", b"tb"]), full])
                ops.append([b"poly", full])
    b = ctx.rbytes(r.randrange(1, 45))
    for x in (b, b[:-1], b + b"\x00", bytes(len(b)), b""):
        ops.append([b"g32", x])
    return _mix(r, r.sample(ops, 50), 0.25)


def fam_scr(ctx):
    """long-lived RedeemScript / WitnessScript objects: address() / p2sh_address() for every network and with the
    network omitted, in every order, with the commands replaced or overwritten in place between the calls"""
    r = ctx.rng
    cur = [random_script(ctx), None, random_script(ctx)]
    cur[1] = list(cur[0])
    ops = [[b"scr", 0, 0, list(cur[0])], [b"scr", 1, 1, list(cur[1])], [b"scr", 2, r.randrange(2), list(cur[2])]]
    for _ in range(r.randrange(15, 30)):
        i = r.randrange(3)
        if r.random() < 0.65:
            ops.append([b"saddr", i, r.randrange(2), r.choice([-1, -1, 0, 0, 1, 2, 3, 4])])
            continue
        new = list(cur[i])
        if new and r.random() < 0.7:
            j = r.randrange(len(new))
            new[j] = ctx.rbytes(len(new[j])) if isinstance(new[j], bytes) else r.choice(OPS)
            how = r.randrange(2)
        else:
            new, how = random_script(ctx), 0
        cur[i] = new
        ops.append([b"sedit", i, how, list(new)])
    for i in range(3):
        for net in r.sample([-1, 0, 1, 3], 4):
            ops.append([b"saddr", i, r.randrange(2), net])
    return ops


FAMILIES = [("script-hash-objects", fam_scr), ("b58", fam_b58), ("segwit", fam_seg), ("script-objects", fam_spk), ("address-parsers", fam_addr),
            ("private-key-objects", fam_key), ("checksum-primitives", fam_prim)]


def histories(ctx):
    r = ctx.rng
    for i in range(ctx.n(12, 120)):
        for name, f in FAMILIES:
            ctx.label("history/" + name)
            yield ("prop", "history", [f(ctx)])
        # everything interleaved in one session: objects stay alive while the module functions are used
        ctx.label("history/interleaved")
        yield ("prop", "history", [_interleave(r, [f(ctx) for _, f in FAMILIES])])


def _interleave(r, parts):
    """merge the sessions keeping each one's own order (object creation stays before use); slots are made disjoint"""
    for pi, p in enumerate(parts):
        for op in p:
            if op[0] in (b"spk", b"addr", b"ser", b"edit", b"editc", b"key", b"wif", b"wifd", b"knet", b"ksec", b"kcomp",
                         b"addrd", b"p2sh", b"scr", b"sedit", b"saddr"):
                op[1] += 10 * pi
    out = []
    parts = [list(p) for p in parts if p]
    while parts:
        p = r.choice(parts)
        k = r.randrange(1, 4)
        out.extend(p[:k])
        del p[:k]
        parts = [q for q in parts if q]
    return out


# ---------------------------------------------------------------- converse direction / other entry points

WITNESS_TEXTS = ["tb1qrp33g0q5c5txsp9arysrx4k6zdkfs4nce4xj0gdcccefvpysxf3q0sl5k7",      # BIP173 valid
                 "tb1qrp33g0q5c5txsp9arysrx4k6zdkfs4nce4xj0gdcccefvpysxf3pjxtptv",      # BIP173 invalid: non-zero padding
                 "bc1qqqqsyqcyq5rqwzqfpg9scrgwpugpzysn4v0345",
                 "bc1qqqqsyqcyq5rqwzqfpg9scrgwpugpzysnqtj07j6",                          # 5 padding bits
                 "bcrt1qqqqsyqcyq5rqwzqfpg9scrgwpugpzysnard0ew",
                 "bcrtxqqqqsyqcyq5rqwzqfpg9scrgwpugpzysnard0ew",                         # separator never looked at
                 "bc1qqqqsyqcyq5rqwzqfpg9scrgwpugpzysnzsf6edgu",                         # v0, 21-byte program, 44 chars
                 "bc1zw508d6qejxtdg4y5r3zarvaryvqyzf3du", "bc1qr508d6qejxtdg4y5r3zarvaryv98gj9p",
                 "BC1SW50QA3JX3S", "bc1sw50qa3jx3s", "bc1rw5uspcuh",
                 "bc1p0xlxvlhemja6c4dqv22uapctqupfhlxm9h8z3k2e72q4k9hcz7vqzk5jj0",      # BIP350 valid P2TR
                 "bc1p0xlxvlhemja6c4dqv22uapctqupfhlxm9h8z3k2e72q4k9hcz7vqh2y7hd"]      # BIP350 invalid (bech32 constant)


def seg_text(hrp, data, const=None, sep="1"):
    """text with a correct checksum for arbitrary symbols (version symbol first)"""
    if const is None:
        const = 1 if data[0] == 0 else 0x2bc830a3
    pm = ref_polymod(ref_hrp(hrp) + data + [0] * 6) ^ const
    return hrp + sep + "".join(B32[d] for d in data + [(pm >> 5 * (5 - i)) & 31 for i in range(6)])


def noncanonical_texts(ctx, ver, prog, net):
    """valid-checksum variants of one address: (label, text)"""
    r = ctx.rng
    hrp = HRP[net]
    body = ref_conv(prog, 8, 5, True)
    pad = 5 * len(body) - 8 * len(prog)
    out = [("canonical", seg_text(hrp, [ver] + body))]
    if pad:
        nz = list(body)
        nz[-1] |= r.randrange(1, 1 << pad)
        out.append(("nonzero-padding", seg_text(hrp, [ver] + nz)))
    out.append(("long-padding", seg_text(hrp, [ver] + body + [0])))
    out.append(("long-nonzero-padding", seg_text(hrp, [ver] + body + [r.randrange(1, 32)])))
    out.append(("version-17..31", seg_text(hrp, [r.randrange(17, 32)] + body)))
    if hrp == "bcrt":
        out.append(("regtest-separator", seg_text(hrp, [ver] + body, sep=r.choice("xq0/2"))))
    out.append(("other-constant", seg_text(hrp, [ver] + body, const=(0x2bc830a3 if ver == 0 else 1))))
    return out


def converse_cases(ctx, strings, addrs):
    r = ctx.rng
    for s in r.sample(strings, ctx.n(60, 400)):
        ctx.label("converse/base58-valid")
        yield ("prop", "decode_encode", [s])
        p = r.randrange(len(s))
        yield ("prop", "decode_encode", [s[:p] + bytes([r.choice(B58.encode())]) + s[p + 1:]])
    for a in WITNESS_TEXTS:
        ctx.label("converse/witness-texts")
        b = a.encode()
        yield ("corr", "decode_bech32", [b])
        yield ("corr", "address_to_script_pubkey", [b])
        yield ("corr", "to_address", [b])
        yield ("corr", "address_to_spk_bytes", [b])
        yield ("prop", "decode_encode", [b])
        yield ("prop", "parsers_only_addresses", [b])
        yield ("prop", "text_iff", [b])
    cases = r.sample(addrs, ctx.n(40, 600))
    cases += [(v, ctx.rbytes(ln), net, None) for v in (0, 1) for ln in (20, 32, 21, 31, 33, 18) for net in (0, 1, 3)]
    for (ver, prog, net, _) in cases:
        for label, a in noncanonical_texts(ctx, ver, prog, net):
            ctx.label("converse/segwit-" + label)
            b = a.encode()
            yield ("corr", "decode_bech32", [b])
            yield ("prop", "decode_encode", [b])
            yield ("prop", "text_iff", [b])
            if ver in (0, 1):
                yield ("corr", "address_to_script_pubkey", [b])
                yield ("corr", "to_address", [b])
                yield ("prop", "parsers_only_addresses", [b])
    # Base58Check texts with foreign version bytes / odd hash lengths
    for _ in range(ctx.n(40, 600)):
        ver = r.choice([0x00, 0x05, 0x6f, 0xc4, 0x70, 0x71, 0x6e, 0x6d, 0xc3, 0xc5, 4, 6, 1, r.randrange(256)])
        h = ctx.rbytes(r.choice([20, 20, 20, 19, 21, 0, 32]))
        raw = bytes([ver]) + h
        a = ref_b58enc(raw + h256(raw)[:4]).encode()
        ctx.label("converse/base58-version-%s" % ("standard" if ver in (0, 5, 0x6f, 0xc4) else "foreign"))
        yield ("corr", "address_to_script_pubkey", [a])
        yield ("corr", "to_address", [a])
        yield ("corr", "address_to_spk_bytes", [a])
        yield ("prop", "decode_encode", [a])
        yield ("prop", "parsers_only_addresses", [a])
        yield ("prop", "text_iff", [a])
    # WIF-shaped texts: payload lengths around 33/34
    for _ in range(ctx.n(40, 600)):
        pre = r.choice([0x80, 0xef, 0x80, 0xef, 0x81])
        ln = r.choice([1, 2, 31, 32, 32, 33, 33, 34, 40])
        body = ctx.rbytes(ln) if r.random() < 0.7 else bytes(ln - 1) + b"\x01"
        if ln == 33 and r.random() < 0.6:
            body = body[:-1] + b"\x01"
        raw = bytes([pre]) + body
        w = ref_b58enc(raw + h256(raw)[:4]).encode()
        ctx.label("converse/wif-payload-%d" % len(raw))
        yield ("corr", "wif_parse", [w])
        yield ("prop", "decode_encode", [w])
        yield ("prop", "wif_only_wif", [w])
        yield ("prop", "text_iff", [w])


OPS = [0, 0x51, 0x52, 0x53, 0x60, 0x76, 0xa9, 0x87, 0x88, 0xac, 0xae, 0xb1, 0x6a, 0x4f, 0xff]


def random_script(ctx, valid=True):
    r = ctx.rng
    k = r.random()
    pk = lambda: bytes([r.choice([2, 3])]) + ctx.rbytes(32)
    if k < 0.25:
        n = r.randrange(1, 4)
        return [0x50 + r.randrange(1, n + 1)] + [pk() for _ in range(n)] + [0x50 + n, 0xae]
    if k < 0.35:
        return [pk(), 0xac]
    cmds = []
    for _ in range(r.randrange(0, 7)):
        if r.random() < 0.5:
            cmds.append(r.choice(OPS))
        else:
            cmds.append(ctx.rbytes(r.choice([1, 2, 20, 32, 33, 65, 75, 76, 255, 256, 520])))
    if not valid:
        cmds.insert(r.randrange(len(cmds) + 1), r.choice([256, -1, 1000, ctx.rbytes(521)]))
    return cmds


def entry_point_cases(ctx):
    r = ctx.rng
    for i in range(ctx.n(40, 600)):
        valid = r.random() < 0.85
        cmds = random_script(ctx, valid)
        net = r.choice([0, 1, 2, 3, 0, 3, 4])
        ctx.label("entry/script-%s" % ("valid" if valid else "unserialisable"))
        yield ("corr", "redeem_address", [cmds, net])
        yield ("corr", "witness_address", [cmds, net])
        yield ("corr", "witness_p2sh_address", [cmds, net])
        if valid and net < 4:
            yield ("prop", "script_entry_points", [cmds, net])
    for net in range(5):
        for h in (ctx.rbytes(20), ctx.rbytes(32), bytes(20), ctx.rbytes(21)):
            ctx.label("entry/segwit-p2sh")
            yield ("corr", "segwit_p2sh_address", [[0, h], net])
    # ScriptPubKey.parse(bytes).address(network)
    for t in range(5):
        for net in range(5):
            for i in range(ctx.n(3, 40)):
                ln = 20 if t < 3 else 32
                h = ctx.rbytes(ln) if i else bytes(ln)
                cmds = spk_commands(t, h)
                b = ref_ser(cmds)
                b = bytes([len(b)]) + b
                ctx.label("entry/spk-bytes-" + ["p2pkh", "p2sh", "p2wpkh", "p2wsh", "p2tr"][t])
                yield ("corr", "spk_bytes_address", [b, net])
                if net < 4:
                    yield ("prop", "spk_bytes_rt", [t, h, net])
                    a = ref_address(t, h, net).encode()
                    yield ("corr", "address_to_spk_bytes", [a])
                    p = r.randrange(len(a))
                    yield ("corr", "address_to_spk_bytes", [a[:p] + bytes([r.choice(B32.encode() if t >= 2 else B58.encode())]) + a[p + 1:]])
                if i == 0:
                    # the script inside a longer stream, its length in every compact-size form
                    for form in range(4):
                        ctx.label("entry/spk-bytes-in-stream")
                        tail = ctx.rbytes(r.choice([1, 3, 40]))
                        yield ("corr", "spk_bytes_address", [len_prefix(len(b) - 1, form) + b[1:] + tail, net])
                        if net < 4:
                            yield ("prop", "spk_stream", [t, h, net, form, ctx.rbytes(r.choice([0, 1, 9])), tail])
                if i == 0:
                    # near misses: not one of the templates -> plain ScriptPubKey, which has no address()
                    hpos = SPK_HPOS[t]
                    miss = []
                    for hh in (h[:-1], h + b"\x00", b""):
                        c = list(cmds)
                        c[hpos] = hh
                        miss.append(ref_ser(c))
                    c = list(cmds)
                    c[0] = (c[0] + 1) % 256
                    miss.append(ref_ser(c))
                    miss.append(ref_ser(cmds + [0x51]))
                    miss.append(ref_ser(cmds[:-1]))
                    # the same commands with a non-minimal push (OP_PUSHDATA1): still recognised
                    miss.append(b"".join(bytes([c]) if isinstance(c, int) else bytes([76, len(c)]) + c for c in cmds))
                    for m in miss:
                        ctx.label("entry/spk-bytes-near-miss")
                        yield ("corr", "spk_bytes_address", [bytes([len(m)]) + m, net])
                    for k in range(len(b)):
                        ctx.label("entry/spk-bytes-truncated")
                        yield ("corr", "spk_bytes_address", [b[:k], net])
                    yield ("corr", "spk_bytes_address", [bytes([len(b) + 3]) + b[1:], net])       # declared length too long
                    yield ("corr", "spk_bytes_address", [bytes([max(0, len(b) - 3)]) + b[1:], net])  # ... too short
    for s in (b"", b"\x00", b"\x01\x51", b"\xfd\x00", b"\xff"):
        yield ("corr", "spk_bytes_address", [s, 0])
    for t in range(5):
        for kind in range(6):
            ctx.label("entry/constructor-non-bytes")
            yield ("prop", "ctor_refuses", [t, kind])
    for k in (1, 2, N - 1, r.randrange(1, N)):
        ctx.label("entry/p2tr-from-point")
        yield ("prop", "p2tr_point", [k, r.randrange(4)])


def b58c(raw):
    return ref_b58enc(raw + h256(raw)[:4]).encode()


def rejecting_branch_cases(ctx):
    """one constructed text for EVERY rejecting branch of the decoders (valid checksum throughout, so that the text
    reaches the branch), on both sides of each comparison; text_iff fails when the text is accepted, when None comes
    back, or when the branch is left by anything but ValueError/RuntimeError"""
    r = ctx.rng

    def text(label, b, corr=()):
        ctx.label("reject/" + label)
        for fn in corr:
            yield ("corr", fn, [b])
        yield ("prop", "text_iff", [b])

    seg_corr = ("decode_bech32", "address_to_script_pubkey", "to_address")
    # ---- decode_bech32: unknown human-readable part, everything else valid (standard program shapes)
    for hrp in ["ltc", "bcr", "b", "t", "c", "BC", "TB", "Bc", "tc", "bt", "bb", "tbx", "bcx", "bcrtx", "bcrt1", "crt",
                "bc1", "tb1", "signet", "sb", "", "bc ", " bc", "\xe9"]:
        for ver, ln in ((0, 20), (0, 32), (1, 32), (r.randrange(2, 17), r.randrange(2, 41))):
            a = ref_segwit(hrp, ver, ctx.rbytes(ln)).encode("latin-1")
            yield from text("segwit-unknown-hrp", a, seg_corr)
    # a known prefix followed by the checksum of ANOTHER known prefix, and the converse
    for h1 in ("bc", "tb", "bcrt"):
        for h2 in ("bc", "tb", "bcrt"):
            if h1 != h2:
                a = ref_segwit(h2, r.choice([0, 1]), ctx.rbytes(32))
                yield from text("segwit-prefix-swapped", (h1 + a[len(h2):]).encode(), seg_corr)
    # ---- the address parsers: every first-character class, valid checksum, 21-byte payload; program lengths
    #      around 20 / 32 for versions 0 / 1 / 2+ (the branches that say "not a valid bech32 address")
    seen = set()
    for ver in list(range(256)):
        a = b58c(bytes([ver]) + ctx.rbytes(20))
        if ver in (0, 5, 0x6f, 0xc4) or a[:1] not in seen or r.random() < 0.1:
            seen.add(a[:1])
            yield from text("base58-first-char-%s" % ("std" if a[:1] in b"123mn" else "other"), a,
                            ("address_to_script_pubkey", "to_address", "address_to_spk_bytes"))
    for first, vers in ((b"1", (0,)), (b"3", (5,)), (b"2", (0xc4,)), (b"m", (0x6f,)), (b"n", (0x6f,))):
        # right version byte, wrong hash length; right first character, wrong version byte
        for ln in (0, 1, 19, 21, 32):
            for _ in range(40):
                a = b58c(bytes([vers[0]]) + ctx.rbytes(ln))
                if a[:1] in b"123mn":
                    break
            yield from text("base58-hash-length", a, ("address_to_script_pubkey", "to_address"))
    for ver in (0, 1, 2, 16):
        for ln in (2, 19, 20, 21, 31, 32, 33, 40):
            for net in (0, 1, 3):
                a = ref_segwit(HRP[net], ver, ctx.rbytes(ln)).encode()
                yield from text("segwit-v%s-len-%s" % (min(ver, 2), "std" if ln in (20, 32) else "other"), a, seg_corr)
    # ---- PrivateKey.parse: each branch
    for pre in (0x80, 0xef):
        sec = r.randrange(1, N).to_bytes(32, "big")
        for last in (0x00, 0x02, 0x81, 0xff, 0x01):
            yield from text("wif-34-last-byte-%s" % ("01" if last == 1 else "other"), b58c(bytes([pre]) + sec + bytes([last])), ("wif_parse",))
        for total in (1, 2, 32, 35, 36, 65):            # whole payload: neither 33 nor 34 bytes
            for tail in (None, b"\x01"):                 # ... also when it ends in the compression marker
                raw = bytes([pre]) + ctx.rbytes(total - 1)
                if tail and total > 1:
                    raw = raw[:-1] + tail
                yield from text("wif-payload-length-%d" % total, b58c(raw), ("wif_parse",))
        yield from text("wif-payload-length-0", b58c(b""), ("wif_parse",))
        for k in (0, N, N + 1, 2 ** 256 - 1, N - 1, 1):
            for suffix in (b"", b"\x01"):
                yield from text("wif-secret-%s" % ("in-range" if 1 <= k < N else "out-of-range"),
                                b58c(bytes([pre]) + k.to_bytes(32, "big") + suffix), ("wif_parse",))
    for pre in (0x7f, 0x81, 0xee, 0xf0, 0x00, 0x08, 0xfe, 0xff, 0xb0, 0x6f):
        for suffix in (b"", b"\x01"):
            yield from text("wif-foreign-prefix", b58c(bytes([pre]) + r.randrange(1, N).to_bytes(32, "big") + suffix), ("wif_parse",))
    # ---- encoders that must refuse
    for net in range(5):
        for ver, ln in ((0, 20), (0, 32), (1, 32)):
            ctx.label("refuse/network")
            yield ("prop", "encode_refuses", [0, spk_bytes(ver, ctx.rbytes(ln)), net])
            yield ("prop", "encode_refuses", [1, [2 + [20, 32].index(ln) + ver, ctx.rbytes(ln)], net])
    for k in (0, N, N + 1, 2 ** 256, -1, 1, N - 1):
        ctx.label("refuse/secret")
        yield ("prop", "encode_refuses", [2, k, 0])


def _const(v):
    return lambda c: v


def _table(d, alphabet):
    return lambda c: alphabet.index(d[c]) if c in d else NA


FOREIGN58 = list("0OIl -_+/=.,:\n\t\r\x00\x7f\x80\xa0\xe9\xff")
IGNORABLE = list(" \t\n\r-_.,:\x00\xa0\xad")
# (name, reading, the characters it is tried with): the value a lenient base58 digit loop gives to a foreign character
READ58 = [("find=-1", _const(-1), FOREIGN58),
          ("default=0", _const(0), FOREIGN58),
          ("alphabet-length", _const(58), FOREIGN58),
          ("clamped-to-last", _const(57), FOREIGN58),
          ("ord-minus-ord('1')", lambda c: ord(c) - 49, FOREIGN58),
          ("ord-mod-58", lambda c: ord(c) % 58, FOREIGN58),
          ("look-alike", _table({"0": "o", "O": "o", "I": "1", "l": "1", "\xb9": "1", "\xb2": "2", "\xb3": "3"}, B58),
           list("0OIl\xb9\xb2\xb3")),
          ("case-and-shape-fold", _table({"I": "i", "l": "L", "O": "Q", "0": "D"}, B58), list("IlO0")),
          ("ignored", _const(None), IGNORABLE)]
FOREIGN32 = list("1bioBIOQPZL -_+/=.\n\t\x00\x7f\xa0\xe9\xff")
READ32 = [("find=-1", _const(-1), FOREIGN32),
          ("default=0", _const(0), FOREIGN32),
          ("alphabet-length", _const(32), FOREIGN32),
          ("clamped-to-last", _const(31), FOREIGN32),
          ("ord-and-31", lambda c: ord(c) & 31, FOREIGN32),
          ("case-fold", lambda c: B32.index(c.lower()) if c != c.lower() and c.lower() in B32 else NA,
           [c.upper() for c in B32 if c.upper() != c]),
          ("look-alike", _table({"1": "l", "b": "6", "i": "l", "o": "0", "B": "8", "I": "l", "O": "0"}, B32), list("1bioBIO")),
          ("ignored", _const(None), IGNORABLE)]


def lenient_digit_cases(ctx):
    """constructed texts with a character outside the alphabet that a LENIENT digit lookup would decode to a valid
    payload with a matching checksum - for every text decoder of the property and every reading of the foreign
    character; all of them must be rejected"""
    r = ctx.rng
    per = ctx.n(2, 8)

    def rsecret():
        return r.randrange(1, N)

    def raw_kind(n, z):
        return lambda: ref_b58enc((lambda b: b + h256(b)[:4])((bytes(z) + ctx.rbytes(n))[:max(n, z)]))

    def xkey(private, mainnet):
        return lambda: ref_xkey_text(private, mainnet, r.randrange(1, 6), ctx.rbytes(4), r.getrandbits(32), ctx.rbytes(32),
                                     rsecret() if private else r.randrange(3))

    kinds = []          # (label, maker of a valid text, corr ops for the forged texts, prop for the valid twin)
    for n in (0, 1, 4, 5, 20, 21, 33, 34, 78, 82):
        for z in (0, 1, 3):
            kinds.append(("payload", raw_kind(n, z), ("raw_decode_base58", "decode_base58"), ("text_iff",)))
    for t in (0, 1):
        for net in range(4):
            kinds.append((["p2pkh", "p2sh"][t] + "-address", (lambda t=t, net=net: ref_address(t, ctx.rbytes(20), net)),
                          ("address_to_script_pubkey", "to_address", "address_to_spk_bytes", "raw_decode_base58"), ("text_iff",)))
    for mainnet in (1, 0):
        for comp in (1, 0):
            kinds.append(("wif", (lambda m=mainnet, c=comp: ref_wif_text(rsecret(), m, c)), ("wif_parse", "raw_decode_base58"),
                          ("text_iff",)))
        for private in (1, 0):
            kinds.append(("xprv" if private else "xpub", xkey(private, mainnet), ("raw_decode_base58",),
                          ("xkey_valid", private)))
    for label, make, ops, twin in kinds:
        twins = 0
        for rname, reading, chars in READ58:
            cs = r.sample(chars, len(chars))
            found = 0
            for attempt in range(16):
                if found >= (3 * per if rname == "ignored" else per):
                    break
                s = make()
                forged = b58_forgeries(s, cs[attempt % len(cs)], reading, r, 3 if rname == "ignored" else 2)
                if forged and twins < (1 if label in ("xprv", "wif") else 2):
                    twins += 1              # the valid twin is accepted (so the forged text reaches the same code)
                    ctx.label("lenient/valid-twin")
                    yield ("prop", twin[0], [s.encode()] + list(twin[1:]))
                for t in forged:
                    found += 1
                    b = t.encode("latin-1")
                    ctx.label("lenient/base58/reading/" + rname)
                    ctx.label("lenient/base58/text/" + label)
                    for op in ops:
                        yield ("corr", op, [b])
                    yield ("prop", "foreign_rejected", [b])
                    yield ("prop", "b58_accept_iff", [b])
                    yield ("prop", "decode_encode", [b])
                    if label.endswith("address"):
                        yield ("prop", "parsers_only_addresses", [b])
                    if label == "wif":
                        yield ("prop", "wif_only_wif", [b])
            if not found:
                ctx.label("lenient/base58/no-text-built")
    # ---- bech32: the symbol lookup of decode_bech32 (and of both address parsers behind it)
    shapes = [(0, 20), (0, 32), (1, 32)] + [(r.randrange(2, 17), r.randrange(2, 41)) for _ in range(2)] + [(0, 2), (16, 40)]
    seg_ops = ("decode_bech32", "address_to_script_pubkey", "to_address")
    for ver, ln in shapes:
        for net in (0, 1, 3):
            hrp = HRP[net]
            for rname, reading, chars in READ32:
                cs = r.sample(chars, len(chars))
                found = 0
                nsym = 1 + (8 * ln + 4) // 5
                # positions: the version symbol, the first / last program symbol, random ones
                spots = [r.randrange(1, nsym), 0, 1, nsym - 1] + [r.randrange(nsym) for _ in range(12)]
                for attempt, p in enumerate(spots):
                    if found >= per + 1:
                        break
                    t = seg_forgery(hrp, ver, ctx.rbytes(ln), p, cs[attempt % len(cs)], reading)
                    if t is None:
                        continue
                    found += 1
                    b = t.encode("latin-1")
                    ctx.label("lenient/bech32/reading/" + rname)
                    ctx.label("lenient/bech32/position/" + ("version" if p == 0 else "program"))
                    for op in seg_ops:
                        yield ("corr", op, [b])
                    yield ("prop", "foreign_rejected", [b])
                    yield ("prop", "decode_encode", [b])
                    yield ("prop", "parsers_only_addresses", [b])
                if not found:
                    ctx.label("lenient/bech32/no-text-built")
            # a VALID address with look-alike / upper-case characters anywhere (checksum part included), and the
            # upper-case forms of the whole text, of the data part, of the human-readable part
            a = ref_segwit(hrp, ver, ctx.rbytes(ln))
            start = len(hrp) + 1
            alts = [a.upper(), a[:start] + a[start:].upper(), a[:start].upper() + a[start:], a[:start - 1].upper() + a[start - 1:]]
            for rname, reading, chars in READ32[5:7]:
                for c in chars:
                    v = reading(c)
                    where = [i for i in range(start, len(a)) if B32.index(a[i]) == v]
                    if where:
                        i = r.choice([where[0], where[-1], r.choice(where)])
                        alts.append(a[:i] + c + a[i + 1:])
                        alts.append(a[:start] + a[start:].replace(B32[v], c))
            for t in r.sample(alts, min(len(alts), 4 + 2 * per)):
                b = t.encode("latin-1")
                ctx.label("lenient/bech32/case-and-look-alike")
                for op in seg_ops:
                    yield ("corr", op, [b])
                yield ("prop", "foreign_rejected", [b])
    # ---- a foreign character mapped to ANY character of the alphabet: the four characters each alphabet leaves out
    #      on purpose, standing in for every alphabet character once, in a valid address
    for c in "0OIl":
        for x in B58:
            for _ in range(60):
                a = ref_address(r.randrange(2), ctx.rbytes(20), r.randrange(4))
                where = [i for i in range(1, len(a)) if a[i] == x]
                if where:
                    ctx.label("lenient/base58/stands-for-any-character")
                    i = r.choice(where)
                    yield ("prop", "foreign_rejected", [(a[:i] + c + a[i + 1:]).encode()])
                    break
    for c in "1bio":
        for x in B32:
            for _ in range(60):
                t, net = r.choice([2, 3, 4]), r.choice([0, 1, 3])
                a = ref_address(t, ctx.rbytes(20 if t == 2 else 32), net)
                where = [i for i in range(len(HRP[net]) + 1, len(a)) if a[i] == x]
                if where:
                    ctx.label("lenient/bech32/stands-for-any-character")
                    i = r.choice(where)
                    yield ("prop", "foreign_rejected", [(a[:i] + c + a[i + 1:]).encode()])
                    break
    # ---- bc32 (same alphabet, same lookup, no human-readable part)
    for rname, reading, chars in READ32:
        for _ in range(3 * per):
            data = ctx.rbytes(r.choice([1, 2, 5, 20, 32, r.randrange(1, 60)]))
            t = bc32_forgery(data, r.randrange(200), r.choice(chars), reading)
            if t is not None:
                ctx.label("lenient/bc32/reading/" + rname)
                yield ("prop", "bc32_foreign", [data, t.encode("latin-1")])


DIGIT_SYMS = [B32.index(c) for c in B32 if c.isdigit()]
LETTER_SYMS = [B32.index(c) for c in B32 if c.isalpha()]


def grind_seg(r, hrp, ver, nbytes, syms, tries=60000):
    """a VALID segwit text (reference encoder) whose program and checksum symbols all have values in syms; None when
    the padding rule leaves no such last symbol or no checksum of that class was found"""
    n = (8 * nbytes + 4) // 5
    pad = 5 * n - 8 * nbytes
    last = [v for v in syms if v % (1 << pad) == 0]
    if not last:
        return None
    const = 1 if ver == 0 else 0x2bc830a3
    pre = ref_hrp(hrp) + [ver]
    ok = set(syms)
    for _ in range(tries):
        body = [r.choice(syms) for _ in range(n - 1)] + [r.choice(last)]
        pm = ref_polymod(pre + body + [0] * 6) ^ const
        chk = [(pm >> 5 * (5 - i)) & 31 for i in range(6)]
        if all(c in ok for c in chk):
            return hrp + "1" + "".join(B32[d] for d in [ver] + body + chk)
    return None


def grind_b58(make, pred, tries=40000):
    for _ in range(tries):
        s = make()
        if pred(s):
            return s
    return None


def audit_cases(ctx):
    """entry-point audit (kinds a, b, d, f, g of the blind-spot list; e is lenient_digit_cases, c is
    rejecting_branch_cases / noncanonical_texts)"""
    r = ctx.rng
    # ---- (a)(b) the address helpers of a public key: +-G, +-2G, +-3G x 5 networks; taproot on one point per network
    for i in range(3):
        for parity in (0, 1):
            for net in range(5):
                ctx.label("audit/public-key-address-helpers")
                yield ("prop", "point_addresses", [i, parity, net, int((2 * i + parity) % 5 == net)])
    # ---- (b) omitted arguments, right after the same object was used with another network
    for t in range(5):
        for net in (1, 2, 3, 4, 0):
            ctx.label("audit/default-network")
            h = ctx.rbytes(20 if t < 3 else 32)
            yield ("prop", "defaults", [t, h, net, random_script(ctx)])
    for secret, net in ((1, 1), (N - 1, 3), (r.randrange(1, N), 2), (r.getrandbits(200) + 1, 0)):
        ctx.label("audit/default-key-arguments")
        yield ("prop", "key_defaults", [secret, net])
    # ---- (a)(b)(c) create_p2sh_multisig with an expected address: 8 variants x 4 networks
    for variant in range(8):
        for net in range(4):
            n = r.randrange(1, 4)
            keys = [bytes([r.choice([2, 3])]) + ctx.rbytes(32) for _ in range(n)]
            if variant == 2 and n > 1 and keys == sorted(keys):
                keys = keys[::-1]
            ctx.label("audit/multisig-expected-address/variant-%d" % variant)
            yield ("prop", "multisig_expected", [r.randrange(1, n + 1), keys, r.randrange(2), net, variant])
    # ---- (a) convert(raw) -> address
    for _ in range(ctx.n(12, 200)):
        ctx.label("audit/script-convert")
        yield ("prop", "script_convert", [random_script(ctx), r.randrange(5)])
    # ---- (a)(f) Tx.find_utxos: outputs that DIFFER in hash, template and amount; the same script twice
    for k in range(ctx.n(12, 200)):
        n = r.choice([1, 2, 3, 5])
        outs = [[r.randrange(2), ctx.rbytes(20), r.randrange(1, 2 ** 40)] for _ in range(n)]
        if k % 3 == 0:
            d = list(r.choice(outs))
            outs.insert(r.randrange(len(outs) + 1), [d[0], d[1], r.randrange(1, 2 ** 40)])
        if k % 4 == 1:
            outs[0][1] = bytes(20)
        ctx.label("audit/find-utxos")
        yield ("prop", "find_utxos", [outs, r.randrange(4), r.randrange(len(outs)), 0])
        yield ("prop", "find_utxos", [outs, r.randrange(4), r.randrange(len(outs)), r.randrange(1, 100)])
    # (c) the SAME hash under both templates in one transaction: the P2PKH address must not match the P2SH output
    # (repaired in /repo by af42eed; regression replay F-C09-find-utxos-address-type)
    for h in (ctx.rbytes(20), bytes(range(20)), bytes(20)):
        ctx.label("audit/find-utxos-same-hash-two-templates")
        yield ("prop", "find_utxos", [[[0, h, 5], [1, h, 7]], 0, 0, 0])
        yield ("prop", "find_utxos", [[[0, h, 5], [1, h, 7]], 1, 1, 0])
        yield ("prop", "find_utxos", [[[1, h, 5], [0, h, 7], [0, h, 9]], 2, 1, 0])
    # ---- (c) a valid checksum over NO data at all (six symbols after the separator: the first checksum symbol stands
    #      where the version symbol is read), under the constant that this symbol selects
    for hrp in ("bc", "tb", "bcrt"):
        for const in (1, 0x2bc830a3):
            pm = ref_polymod(ref_hrp(hrp) + [0] * 6) ^ const
            chk = [(pm >> 5 * (5 - i)) & 31 for i in range(6)]
            if (const == 1) == (chk[0] == 0):
                ctx.label("audit/segwit-checksum-only")
                yield ("prop", "text_iff", [(hrp + "1" + "".join(B32[d] for d in chk)).encode()])
    # ---- (d) character classes that random payloads do not produce (checksums ground with the reference encoder)
    made = []
    for hrp in ("bc", "tb", "bcrt"):
        for ver in (5, 7, 10, 15):                      # version symbols 9 8 2 0: the whole data part is digits
            made.append((b"seg-digits", grind_seg(r, hrp, ver, r.choice([3, 5, 8, 10]), DIGIT_SYMS)))
        made.append((b"seg-digits-after-version", grind_seg(r, hrp, 0, 20, DIGIT_SYMS)))      # P2WPKH: q + digits
        made.append((b"seg-digits-after-version", grind_seg(r, hrp, 1, r.choice([5, 10, 40]), DIGIT_SYMS)))
        for ver, ln in ((0, 20), (0, 32), (1, 32), (16, 40), (2, 2)):
            made.append((b"seg-letters", grind_seg(r, hrp, ver, ln, LETTER_SYMS)))
    made.append((b"b58-letters", grind_b58(lambda: ref_address(0, ctx.rbytes(20), 1), str.isalpha)))
    made.append((b"b58-letters", grind_b58(lambda: ref_address(0, ctx.rbytes(20), 3), str.isalpha)))
    made.append((b"b58-letters", grind_b58(lambda: ref_wif_text(r.randrange(1, N), True, True), str.isalpha)))
    made.append((b"b58-letters", grind_b58(lambda: ref_wif_text(r.randrange(1, N), False, True), str.isalpha)))
    for n in (0, 1, 5, 21):
        made.append((b"b58-letters", grind_b58(lambda: T(b58c(ctx.rbytes(n))), str.isalpha, 3000)))
    for cls, s in made:
        if s is None:
            ctx.label("audit/character-class/no-text-built")
            continue
        ctx.label("audit/character-class/" + cls.decode())
        b = s.encode()
        yield ("prop", "charclass", [b, cls])
        if cls.startswith(b"seg"):
            for fn in ("decode_bech32", "address_to_script_pubkey", "to_address"):
                yield ("corr", fn, [b])
        else:
            for fn in ("raw_decode_base58", "decode_base58", "address_to_script_pubkey", "to_address", "wif_parse"):
                yield ("corr", fn, [b])


def generate(ctx):
    r = ctx.rng
    # ---------------- base58
    strings = []
    for n in range(0, 83):
        for b in payloads(ctx, n):
            z = len(b) - len(b.lstrip(b"\x00"))
            ctx.label("b58/leading-zeros=%s" % ("0" if z == 0 else "all" if z == n else "some"))
            yield ("corr", "encode_base58", [b])
            yield ("corr", "encode_base58_checksum", [b])
            yield ("prop", "b58_rt", [b])
            s = ref_b58enc(b + h256(b)[:4]).encode()
            strings.append(s)
            yield ("corr", "raw_decode_base58", [s])
            yield ("corr", "decode_base58", [s])
            yield ("prop", "b58_accept_iff", [s])
            if n in (0, 1, 20, 21, 32, 33, 34, 82) or r.random() < 0.15:
                yield ("prop", "text_iff", [s])
    # strings decoding to fewer than 4 bytes, leading-'1' handling, foreign characters
    small = [b"", b"1", b"11", b"111", b"1111", b"11111", b"2", b"12", b"21", b"211", b"1121", b"z", b"zz", b"1z1z1",
             b"3QJmnh", b"11113QJmnh", ref_b58enc(h256(b"")[:4]).encode(), b"1" + ref_b58enc(b"\x00" + h256(b"\x00")[:4]).encode()]
    for s in small:
        yield ("corr", "raw_decode_base58", [s])
        yield ("corr", "decode_base58", [s])
        yield ("prop", "b58_accept_iff", [s])
        yield ("prop", "text_iff", [s])
    for s in r.sample(strings, ctx.n(25, 400)):
        # every single substitution at a sampled position set / every position in thorough runs
        pos_list = range(len(s)) if ctx.tier != "quick" else r.sample(range(len(s)), min(len(s), 6))
        for p in pos_list:
            for c in (B58 if ctx.tier != "quick" else r.sample(B58, 8)):
                if ord(c) == s[p]:
                    continue
                bad = s[:p] + c.encode() + s[p + 1:]
                ctx.label("b58/substituted")
                yield ("prop", "b58_accept_iff", [bad])
                if r.random() < 0.1:
                    yield ("corr", "raw_decode_base58", [bad])
                    yield ("prop", "text_iff", [bad])
        for c in "0OIl +/\xff\x00":
            p = r.randrange(len(s))
            bad = s[:p] + c.encode("latin-1") + s[p + 1:]
            ctx.label("b58/foreign-character")
            yield ("corr", "raw_decode_base58", [bad])
            yield ("prop", "b58_accept_iff", [bad])
            yield ("prop", "text_iff", [bad])
        p = r.randrange(len(s) + 1)
        yield ("corr", "raw_decode_base58", [s[:p] + b"1" + s[p:]])     # inserted '1'
        yield ("corr", "raw_decode_base58", [s[:p]])                     # truncated
        yield ("prop", "b58_accept_iff", [s[:p] + b"1" + s[p:]])
        yield ("prop", "text_iff", [s[:p] + b"1" + s[p:]])
        yield ("prop", "text_iff", [s[:p]])
    for _ in range(ctx.n(150, 4000)):
        s = "".join(r.choice(B58[:3] if r.random() < 0.3 else B58) for _ in range(r.randrange(0, 12))).encode()
        yield ("corr", "raw_decode_base58", [s])
        yield ("prop", "b58_accept_iff", [s])
        if r.random() < 0.2:
            yield ("prop", "text_iff", [s])
    # short strings with a VALID checksum found by construction: payloads of 0..3 bytes
    for n in range(0, 4):
        for _ in range(3):
            b = ctx.rbytes(n)
            s = ref_b58enc(b + h256(b)[:4]).encode()
            yield ("corr", "raw_decode_base58", [s])
            yield ("corr", "decode_base58", [s])
            yield ("prop", "b58_accept_iff", [s])
            yield ("prop", "text_iff", [s])
    # ---------------- polymod and checksum primitives
    for _ in range(ctx.n(100, 3000)):
        vals = [r.randrange(32) for _ in range(r.randrange(0, 100))]
        if r.random() < 0.1 and vals:
            vals[r.randrange(len(vals))] = r.choice([32, 255, 1 << 30, -1, -32])
        yield ("corr", "polymod", [vals])
        hrp = r.choice([b"bc", b"tb", b"bcrt", b"", b"A", bytes(r.randrange(33, 127) for _ in range(r.randrange(1, 10)))])
        yield ("corr", "hrp_expand", [hrp])
        m = r.randrange(2)
        data = [r.randrange(32) for _ in range(r.randrange(0, 70))]
        yield ("corr", "create_checksum", [m, hrp, data])
        pm = ref_polymod(ref_hrp(T(hrp)) + data + [0] * 6) ^ (0x2bc830a3 if m else 1)      # reference, not the library
        chk = [(pm >> 5 * (5 - i)) & 31 for i in range(6)]
        yield ("corr", "verify_checksum", [m, hrp, data + chk])
        yield ("corr", "verify_checksum", [1 - m, hrp, data + chk])
        if data:
            d2 = list(data)
            d2[r.randrange(len(d2))] ^= r.randrange(1, 32)
            yield ("corr", "verify_checksum", [m, hrp, d2 + chk])
    # ---------------- group_32
    for n in list(range(0, 46)) + [r.randrange(46, 300) for _ in range(ctx.n(5, 100))]:
        for b in (ctx.rbytes(n), b"\xff" * n, bytes(n)):
            yield ("corr", "group_32", [b])
            yield ("prop", "group32", [b])
    # ---------------- segwit addresses: complete enumeration of version x length x network
    addrs = []
    for ver in range(0, 17):
        for ln in range(2, 41):
            for net in range(4):
                prog = ctx.rbytes(ln)
                if r.random() < 0.1:
                    prog = r.choice([bytes(ln), b"\xff" * ln])
                sb = spk_bytes(ver, prog)
                ctx.label("segwit/v0" if ver == 0 else "segwit/v1+")
                yield ("corr", "encode_bech32_checksum", [sb, net])
                yield ("prop", "segwit_rt", [ver, prog, net])
                a = ref_segwit(HRP[net], ver, prog)
                yield ("corr", "decode_bech32", [a.encode()])
                if ln in (2, 20, 32, 40) or r.random() < 0.05:
                    yield ("prop", "text_iff", [a.encode()])
                addrs.append((ver, prog, net, a))
    # outside the domain: what the codec does with other inputs (model = implementation)
    for _ in range(ctx.n(150, 3000)):
        v0 = r.choice([0, 1, 0x30, 0x31, 0x4f, 0x50, 0x51, 0x60, 0x61, 0x6f, 0x70, 0xff, r.randrange(256)])
        ln = r.choice([0, 1, 2, 20, 32, 40, 41, 75, r.randrange(256)])
        body = ctx.rbytes(r.choice([ln, ln, max(0, ln - 1), ln + 3, 0]))
        yield ("corr", "encode_bech32_checksum", [bytes([v0, ln]) + body, r.randrange(5)])
    for s in (b"", b"\x00", b"\x51"):
        yield ("corr", "encode_bech32_checksum", [s, 0])
    # decode: valid checksum but outside the accepted shape
    for _ in range(ctx.n(150, 3000)):
        hrp = r.choice(["bc", "tb", "bcrt", "bcrt", "ltc", "", "b", "bcr", "BC"])
        ver = r.choice([0, 1, 2, 16, 17, 31])
        ln = r.choice([0, 1, 2, 20, 32, 40, 41, 50])
        a = ref_segwit(hrp, ver, ctx.rbytes(ln))
        ctx.label("decode/valid-checksum-odd-shape")
        yield ("corr", "decode_bech32", [a.encode()])
        yield ("prop", "text_iff", [a.encode()])
        k = r.random()
        if k < 0.15:
            a = a.upper()
        elif k < 0.3:
            a = a.replace("1", r.choice(["", "11", "1q1", "x", "0"]), 1)
        elif k < 0.45:
            a = a[: r.randrange(len(a) + 1)]
        elif k < 0.6:
            # extra symbols with a recomputed checksum: non-zero padding / long padding
            data = [ver] + [r.randrange(32) for _ in range(r.randrange(0, 70))]
            const = 1 if ver == 0 else 0x2bc830a3
            pm = ref_polymod(ref_hrp(hrp) + data + [0] * 6) ^ const
            a = hrp + "1" + "".join(B32[d] for d in data + [(pm >> 5 * (5 - i)) & 31 for i in range(6)])
        elif k < 0.7 and hrp == "bcrt":
            a = a[:4] + r.choice("qx/2") + a[5:]       # separator of a regtest address is never looked at
        yield ("corr", "decode_bech32", [a.encode("latin-1")])
        yield ("prop", "text_iff", [a.encode("latin-1")])
    for _ in range(ctx.n(100, 2000)):
        a = bytes(r.choice(b"bc1tqpzry9x8gf2rt") for _ in range(r.randrange(0, 30)))
        yield ("corr", "decode_bech32", [a])
        yield ("prop", "text_iff", [a])
    yield from rejecting_branch_cases(ctx)
    # ---------------- error detection: exhaustive single substitutions, sampled position pairs x all symbol pairs
    sample = r.sample(addrs, ctx.n(10, 250))
    sample += [x for x in addrs if x[1] and x[0] in (0, 1) and len(x[1]) in (20, 32)][: ctx.n(6, 60)]
    for (ver, prog, net, a) in sample:
        start = len(HRP[net]) + 1
        n = len(a) - start
        for pos in range(n):
            ctx.label("subst/single/version-char" if pos == 0 else
                      "subst/single/checksum" if pos >= n - 6 else "subst/single/program")
            yield ("prop", "segwit_sub1", [ver, prog, net, pos])
            c = r.choice(B32)
            if c != a[start + pos]:
                yield ("corr", "decode_bech32", [(a[:start + pos] + c + a[start + pos + 1:]).encode()])
                if pos % 4 == 0:
                    yield ("prop", "text_iff", [(a[:start + pos] + c + a[start + pos + 1:]).encode()])
        pairs = [(0, r.randrange(1, n)), (r.randrange(n - 6, n), r.randrange(0, n - 6))]
        pairs += [tuple(r.sample(range(n), 2)) for _ in range(ctx.n(4, 40))]
        for (p1, p2) in pairs:
            ctx.label("subst/double/with-version-char" if 0 in (p1, p2) else "subst/double/other")
            yield ("prop", "segwit_sub2", [ver, prog, net, p1, p2])
            l = list(a)
            l[start + p1] = r.choice(B32)
            l[start + p2] = r.choice(B32)
            yield ("corr", "decode_bech32", ["".join(l).encode()])
    # ---------------- scriptPubKey <-> address
    for net in range(4):
        for t in range(5):
            for i in range(ctx.n(6, 150)):
                ln = 20 if t in (0, 1, 2) else 32
                h = ctx.rbytes(ln)
                if i == 0:
                    h = bytes(ln)
                if i == 1:
                    h = b"\xff" * ln
                ctx.label("address/" + ["p2pkh", "p2sh", "p2wpkh", "p2wsh", "p2tr"][t])
                yield ("corr", "address", [t, h, net])
                yield ("prop", "spk_addr", [t, h, net])
                yield ("prop", "to_address", [t, h, net])
                a = ref_address(t, h, net).encode()            # built by the reference encoder, not by the library
                yield ("corr", "address_to_script_pubkey", [a])
                yield ("corr", "to_address", [a])
                # corrupted address
                p = r.randrange(len(a))
                bad = a[:p] + bytes([r.choice(B32.encode() if t >= 2 else B58.encode())]) + a[p + 1:]
                yield ("corr", "address_to_script_pubkey", [bad])
                yield ("corr", "to_address", [bad])
                yield ("prop", "text_iff", [ref_address(t, h, net).encode()])
                yield ("prop", "text_iff", [bad])
        yield ("prop", "addr_distinct", [ctx.rbytes(32), ctx.rbytes(32), net])
    # non-standard hash lengths / other networks / odd strings: model = implementation
    for _ in range(ctx.n(80, 2000)):
        t = r.randrange(5)
        h = ctx.rbytes(r.choice([0, 1, 19, 20, 21, 31, 32, 33, 40, 75, 76]))
        net = r.randrange(5)
        yield ("corr", "address", [t, h, net])
        if t >= 2:
            yield ("prop", "encode_refuses", [1, [t, h], net])
        a = ref_address(t, h, net) if (t < 2 or (net in HRP and 2 <= len(h) <= 40)) else None
        if a is None:
            continue
        a = a.encode()
        yield ("corr", "address_to_script_pubkey", [a])
        yield ("corr", "to_address", [a])
        yield ("prop", "text_iff", [a])
    for s in [b"", b"1", b"3", b"m", b"x", b"bc1", b"bc1q", b"bc1p", b"tb1q", b"bcrt1q", b"bcrt1p", b"bc1z", b"BC1Q",
              b"tb1", b"bcrt1", b"bcrt", b"bc", b"2", b"n", b"bc1qqqqqqq", b"tb1pqqqqqq", b"1111", b"bc11", b"tb1q1"]:
        yield ("corr", "address_to_script_pubkey", [s])
        yield ("corr", "to_address", [s])
        yield ("corr", "decode_bech32", [s])
        yield ("prop", "text_iff", [s])
    for ver in (0, 1, 2, 16):
        for ln in (20, 21, 32, 33):
            for hrp in ("bc", "tb", "bcrt"):
                a = ref_segwit(hrp, ver, ctx.rbytes(ln)).encode()
                yield ("corr", "address_to_script_pubkey", [a])
                yield ("corr", "to_address", [a])
                yield ("prop", "text_iff", [a])
    # ---------------- WIF
    secrets = [0, 1, 2, 255, 256, N - 1, N, N + 1, 2 ** 255, 2 ** 256 - 1, 2 ** 256, -1, 2 ** 248 - 1, 2 ** 248]
    secrets += [r.getrandbits(r.choice([8, 64, 200, 248, 255, 256])) for _ in range(ctx.n(40, 1500))]
    for sec in secrets:
        for mainnet in (0, 1):
            for comp in (0, 1):
                ctx.label("wif/in-range" if 1 <= sec < N else "wif/out-of-range")
                yield ("corr", "wif_encode", [sec, mainnet, comp])
                yield ("prop", "wif_rt", [sec, mainnet, comp])
                if 1 <= sec < N and r.random() < 0.5:
                    w = ref_wif_text(sec, mainnet, comp).encode()
                    yield ("corr", "wif_parse", [w])
                    p = r.randrange(len(w))
                    bad = w[:p] + bytes([r.choice(B58.encode())]) + w[p + 1:]
                    yield ("corr", "wif_parse", [bad])
                    yield ("prop", "text_iff", [w])
                    yield ("prop", "text_iff", [bad])
    # payloads of other shapes with a valid checksum
    for _ in range(ctx.n(60, 1500)):
        pre = r.choice([0x80, 0xef, 0x00, 0x81, 0xee, r.randrange(256)])
        ln = r.choice([0, 1, 5, 31, 32, 33, 34, 40])
        body = ctx.rbytes(ln)
        if ln == 33 and r.random() < 0.5:
            body = body[:-1] + b"\x01"
        if r.random() < 0.1:
            body = bytes(ln)
        raw = (bytes([pre]) + body) if r.random() < 0.95 else b""
        ctx.label("wif/odd-payload")
        yield ("corr", "wif_parse", [ref_b58enc(raw + h256(raw)[:4]).encode()])
        yield ("prop", "text_iff", [ref_b58enc(raw + h256(raw)[:4]).encode()])
    # ---------------- converse direction (decode then encode), non-canonical texts, other entry points
    yield from converse_cases(ctx, strings, addrs)
    yield from entry_point_cases(ctx)
    # ---------------- histories (state kept across calls on one object / in the module)
    yield from histories(ctx)
    # ---------------- characters outside the alphabet, compensated under every lenient reading of them
    yield from lenient_digit_cases(ctx)
    # ---------------- entry-point audit: other routes to the codecs, omitted arguments, unusual character classes
    yield from audit_cases(ctx)
