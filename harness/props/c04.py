"""C04 — transaction wire codec (script / witness / txin / txout / tx), txid, fetcher."""
import contextlib
import hashlib
import io
import json
import os
import struct
import tempfile
from io import BytesIO

from buidl import tx as btx
from buidl.helper import encode_varint, encode_varstr, read_varint, read_varstr
from buidl.script import (P2PKHScriptPubKey, P2SHScriptPubKey, P2TRScriptPubKey, P2WPKHScriptPubKey,
                          P2WSHScriptPubKey, RedeemScript, Script, ScriptPubKey, WitnessScript)
from buidl.timelock import Locktime, Sequence
from buidl.tx import Tx, TxFetcher, TxIn, TxOut
from buidl.witness import Witness
from vp.sexp import ERR
from vp.sexp import canon as sexp_canon

PID = "C04"
RULE = ("Scripts: one script per push length 0..521 (all three length classes and both edges of each), every "
        "opcode 0..255 as an int command, out-of-range opcodes, raw fallback scripts; transactions built through "
        "the API with input/output counts 0..3 and 252/253/300, witness stacks with items of length "
        "0/1/75/76/252/253/65535/65536/70000 and 0..300 items, amounts/fields at 0, 2^32-1, 2^32, 2^64-1, 2^64, "
        "scripts long enough for 3- and 5-byte compact sizes; malformed stream = every truncation offset and a "
        "byte flip at every offset of sampled serialisations, non-minimal pushes, random bytes; fetcher responses: "
        "honest, trailing bytes, non-minimal push, other transaction, garbage, whitespace/upper-case hex, "
        "non-UTF-8, cached/fresh sequences, every served network and unknown networks.  Streams: every parse entry "
        "point of the correspondence cases reads its input from offset 0, 1, 6 or 11 of a stream; dedicated "
        "mid-stream predicates place the canonical encoding of a transaction / input / output / script / witness / "
        "compact size / var-string / 4-byte field behind prefixes of length 0..7, 36, 300 (random, 00, 00 01, a "
        "whole transaction) and before trailing bytes, and check fields and the final stream position; several "
        "transactions back to back; compact sizes on both sides of every width boundary up to 2^64-1 (9-byte "
        "width), out-of-range values, every first byte 0..255 with complete (also non-minimal) payloads; "
        "parse_hex, clone (independence of the copy), constructor defaults.  Stream model (correspondence): Tx.parse "
        "at every position 0..8, 37, 100 of a buffer holding a canonical / truncated / corrupted transaction, every "
        "combination of 0..8 bytes before and 0..6 bytes left (the step back of seek(-5, 1) reaches into the prefix), "
        "positions beyond the end of the buffer, 0..5 transactions back to back and one parse more than there are "
        "transactions.  Other entry points against the model: Tx.parse_hex on lower/upper-case hex, white space between "
        "pairs / inside a pair, odd length, trailing garbage, non-ASCII; Tx.clone; Script.parse_hex, Script + Script, "
        "Script == (operands with and without .raw, int commands 1..78 and out of range), Script.parse(stream, raw) "
        "with each argument present / absent / empty; Tx(...)/TxIn(...) constructor defaults.  Canonical script "
        "bytes: the predicate script_canon compares parse + raw_serialize with an independent recogniser of the "
        "canonical grammar on serialisations, single-byte mutations, truncations, random bytes, every push form "
        "(direct, PUSHDATA1/2/4) at lengths 0/1/74..77/254..257/519..521/600.  Fetcher with its network argument: "
        "call histories (fresh / cached) over mainnet, testnet, signet and unserved names ('regtest', '', 'Mainnet') "
        "with honest / other / garbage responses, URL requested or not, network label of what is returned; a cached "
        "id requested under another network name.  Less travelled doors (audit of round-3 blind spots): default-constructed "
        "TxIn / Script / Witness / parsed empty objects edited in place while other objects are observed; TxIn.finalize_* with "
        "signatures that differ from each other; script commands / witness items / objects edited in place AFTER a first "
        "serialisation, the source edited after clone(); Tx.parse / parse_hex / parse_legacy / parse_segwit with a network "
        "(positional and keyword), RedeemScript / WitnessScript convert / parse; Script + Script observed on its operands; "
        "fetcher histories with a verdict after every call (cache invariant also after a refused answer, honest retry, refused "
        "fresh re-fetch of a cached id); dump_cache / load_cache; TxIn.value / script_pubkey / fetch_tx, Tx.fee, "
        "Tx.get_input_tx_lookup on inputs spending different outputs of different transactions, lying server then honest "
        "retry; hand-built encodings with ONE non-minimal compact size (every field kind x widths 3/5/9, incl. fd 00 00 as a "
        "zero input count); coinbase outpoint, all-00 / all-ff fields, hex text without letters / without digits; requested "
        "id in the other byte order / wtxid.")
TRUSTED = ["hashlib (sha256) — hash256 is a universally quantified function in the theorems",
           "modelled, not verified: object plumbing (Script/TxIn/TxOut/Tx/Witness constructors, Sequence/Locktime "
           "int subclasses are modelled as a range check at construction), urllib Request construction"]
ASSUMPTIONS = ["9-byte compact sizes as LENGTHS/COUNTS (>= 2^32) are proved in Coq but not exercised at run time "
               "(a 4 GiB script is not built); 5-byte ones are; encode_varint/read_varint themselves are exercised on "
               "9-byte values",
               "streams are io.BytesIO objects (Tx.parse relies on BytesIO.seek clamping)"]
BUDGET_S = {"quick": 600, "thorough": 3000}

SPK_KIND = {P2PKHScriptPubKey: 1, P2SHScriptPubKey: 2, P2WPKHScriptPubKey: 3, P2WSHScriptPubKey: 4,
            P2TRScriptPubKey: 5}


def quiet(f):
    def g(*a):
        with contextlib.redirect_stdout(io.StringIO()):
            return f(*a)
    g.__name__ = getattr(f, "__name__", "impl")
    return g


# ---------------------------------------------------------------- canonical value <-> object


def mk_script(v, cls=Script):
    cmds, raw = v
    s = cls(list(cmds))
    if len(raw):
        s.raw = raw[0]
    return s


def mk_spk(v):
    """TxOut.script_pubkey as the API builds it: the P2xx subclass when the commands are that pattern"""
    cmds, raw = v
    if not len(raw):
        p = Script(list(cmds))
        if p.is_p2pkh():
            return P2PKHScriptPubKey(cmds[2])
        if p.is_p2sh():
            return P2SHScriptPubKey(cmds[1])
        if p.is_p2wpkh():
            return P2WPKHScriptPubKey(cmds[1])
        if p.is_p2wsh():
            return P2WSHScriptPubKey(cmds[1])
        if p.is_p2tr():
            return P2TRScriptPubKey(cmds[1])
    return mk_script(v, ScriptPubKey)


def un_script(s):
    return [list(s.commands), [] if s.raw is None else [s.raw]]


def mk_txin(v):
    pt, pi, sc, sq, w = v
    i = TxIn(pt, pi, mk_script(sc), sq)
    i.witness = Witness(list(w))
    return i


def un_txin(i):
    return [i.prev_tx, i.prev_index, un_script(i.script_sig), int(i.sequence), list(i.witness.items)]


def mk_txout(v):
    am, sc = v
    return TxOut(am, mk_spk(sc))


def un_txout(o):
    return [o.amount, un_script(o.script_pubkey)]


def mk_tx(v):
    ver, ins, outs, lt, sw = v
    return Tx(ver, [mk_txin(i) for i in ins], [mk_txout(o) for o in outs], lt, segwit=bool(sw))


def un_tx(t):
    return [t.version, [un_txin(i) for i in t.tx_ins], [un_txout(o) for o in t.tx_outs], int(t.locktime),
            1 if t.segwit else 0]


# ---------------------------------------------------------------- implementation entry points


PREFIX_LENS = (0, 1, 6, 11)


def mid(s):
    """A stream that holds `s` and is positioned at its first byte; for three inputs out of four `s` does not start
    at offset 0 (a deterministic prefix of 1, 6 or 11 bytes, derived from `s` itself so that a replay rebuilds the
    same stream).  The parsers must behave as on a stream that starts with `s`: every parse entry point below
    returns the bytes left in the stream, so a parser that steps back too far (a relative seek clamped by BytesIO
    only at offset 0), reads from an absolute position, or consumes a wrong number of bytes disagrees with the
    model."""
    k = (len(s) + (s[0] if s else 0) + (s[-1] if s else 0)) % 4
    n = PREFIX_LENS[k]
    pre = hashlib.sha256(b"C04 stream prefix" + bytes([k]) + s[:8]).digest()[:n]
    st = BytesIO(pre + s)
    st.seek(n)
    return st


def i_parse_script(s):
    st = mid(s)
    sc = Script.parse(st)
    return [un_script(sc), st.read()]


def i_parse_script_pubkey(s):
    st = mid(s)
    sc = ScriptPubKey.parse(st)
    return [un_script(sc), SPK_KIND.get(type(sc), 0), st.read()]


def i_witness_parse(s):
    st = mid(s)
    w = Witness.parse(st)
    return [list(w.items), st.read()]


def i_txin_parse(s):
    st = mid(s)
    i = TxIn.parse(st)
    return [un_txin(i), st.read()]


def i_txout_parse(s):
    st = mid(s)
    o = TxOut.parse(st)
    return [un_txout(o), SPK_KIND.get(type(o.script_pubkey), 0), st.read()]


def i_tx_parse(s):
    st = mid(s)
    t = Tx.parse(st)
    return [un_tx(t), st.read()]


def i_tx_roundtrip(v, rest):
    st = mid(mk_tx(v).serialize() + rest)
    t = Tx.parse(st)
    return [un_tx(t), st.read()]


class _Resp:
    def __init__(self, data):
        self.data = data

    def read(self):
        return self.data


class fake_net:
    """replaces buidl.tx.urlopen by a stub serving the given responses in order"""

    def __init__(self, responses):
        self.responses = list(responses)
        self.urls = []

    def __enter__(self):
        self.old = btx.urlopen
        btx.urlopen = self._open
        return self

    def __exit__(self, *a):
        btx.urlopen = self.old

    def _open(self, req, *a, **k):
        self.urls.append(req.full_url)
        return _Resp(self.responses.pop(0))


def i_fetch_text(resp, idb):
    tx_id = idb.decode("latin-1")
    TxFetcher.cache.clear()
    try:
        with fake_net([resp]) as net:
            t = TxFetcher.fetch(tx_id, fresh=True)
        if TxFetcher.cache.get(tx_id) is not t or len(TxFetcher.cache) != 1:
            return [b"returned object is not the cached one"]
        if net.urls != ["https://blockstream.info/api/tx/" + tx_id + "/hex"]:
            return [b"unexpected url", net.urls]
        return un_tx(t)
    finally:
        TxFetcher.cache.clear()


def i_fetch_check(raw, idb):
    return i_fetch_text(raw.hex().encode(), idb.hex().encode())


def i_fetch_run(ops):
    TxFetcher.cache.clear()
    out = []
    try:
        for fresh, resp, idb in ops:
            try:
                with fake_net([resp]):
                    out.append(un_tx(TxFetcher.fetch(idb.decode("latin-1"), fresh=bool(fresh))))
            except Exception:
                out.append(ERR)
    finally:
        TxFetcher.cache.clear()
    return [len(ops)] + out


def i_fromhex(resp):
    return bytes.fromhex(resp.decode("utf-8").strip())


IMPL = {
    "parse_raw": lambda raw: un_script(Script.parse(raw=raw)),
    "raw_serialize": lambda sc: mk_script(sc).raw_serialize(),
    "parse_script": i_parse_script,
    "serialize_script": lambda sc: mk_script(sc).serialize(),
    "parse_script_pubkey": i_parse_script_pubkey,
    "witness_parse": i_witness_parse,
    "witness_serialize": lambda items: Witness(list(items)).serialize(),
    "txin_parse": i_txin_parse,
    "txin_serialize": lambda v: mk_txin(v).serialize(),
    "txout_parse": i_txout_parse,
    "txout_serialize": lambda v: mk_txout(v).serialize(),
    "tx_parse": i_tx_parse,
    "tx_build": lambda v: un_tx(mk_tx(v)),
    "tx_serialize": lambda v: mk_tx(v).serialize(),
    "serialize_legacy": lambda v: mk_tx(v).serialize_legacy(),
    "serialize_segwit": lambda v: mk_tx(v).serialize_segwit(),
    "tx_hash": lambda v: mk_tx(v).hash(),
    "tx_id": lambda v: mk_tx(v).id(),
    "tx_roundtrip": i_tx_roundtrip,
    "fetch_check": i_fetch_check,
    "fetch_text": i_fetch_text,
    "fetch_run": i_fetch_run,
    "fromhex": i_fromhex,
    "hexlify": lambda b: b.hex(),
}


def _try(f):
    try:
        return f()
    except Exception:
        return ERR


def i_tx_parse_st(data, pos):
    """Tx.parse on a BytesIO holding `data`, positioned at `pos` (possibly beyond the end): fields, the bytes left
    in the stream and the final position"""
    st = BytesIO(data)
    st.seek(pos)
    t = Tx.parse(st)
    p = st.tell()
    return [un_tx(t), st.read(), p]


def i_tx_parse_seq(k, data, pos):
    st = BytesIO(data)
    st.seek(pos)
    ts = [un_tx(Tx.parse(st)) for _ in range(k)]
    p = st.tell()
    return [ts, st.read(), p]


def i_script_add(a, b):
    s = mk_script(a) + mk_script(b)
    return [un_script(s), _try(s.raw_serialize), _try(s.serialize)]


def i_fetch_net_run(ops):
    TxFetcher.cache.clear()
    out = []
    try:
        for fresh, resp, idb, net in ops:
            with fake_net([resp]) as fn:
                try:
                    t = TxFetcher.fetch(idb.decode("latin-1"), network=net.decode("latin-1"), fresh=bool(fresh))
                    res = [un_tx(t), t.network.encode("latin-1")]
                except Exception:
                    res = ERR
            out.append([res, [u.encode("latin-1") for u in fn.urls]])
    finally:
        TxFetcher.cache.clear()
    return [len(ops)] + out


def i_script_parse_args(st, rw):
    """Script.parse(stream, raw) with each argument present or None; the stream is positioned in the middle of a
    buffer; returns the script and what is left in the stream"""
    stream = mid(st[0]) if len(st) else None
    raw = rw[0] if len(rw) else None
    sc = Script.parse(stream, raw)
    return [un_script(sc), [] if stream is None else [stream.read()]]


def i_tx_defaults(ver, pts, outs):
    t = Tx(ver, [TxIn(pt, pi) for pt, pi in pts], [mk_txout(o) for o in outs])
    return [un_tx(t), _try(t.serialize)]


def i_txin_prevout(v, net, resp):
    """TxIn.value(network) and TxIn.script_pubkey(network) of a fresh input on an empty cache: the amount and the
    script, and the URLs requested (value() fetches, script_pubkey() must then be served from the cache)"""
    TxFetcher.cache.clear()
    try:
        try:
            i = mk_txin(v)
        except Exception:
            return [ERR, []]
        network = net.decode("latin-1")
        with fake_net([resp, resp]) as fn:
            try:
                res = [i.value(network), un_script(i.script_pubkey(network))]
            except Exception:
                res = ERR
        return [res, [u.encode("latin-1") for u in fn.urls]]
    finally:
        TxFetcher.cache.clear()


IMPL.update({
    "txin_prevout": i_txin_prevout,
    "script_parse_args": i_script_parse_args,
    "tx_defaults": i_tx_defaults,
    "tx_parse_st": i_tx_parse_st,
    "tx_parse_seq": i_tx_parse_seq,
    "tx_parse_hex": lambda txt: un_tx(Tx.parse_hex(txt.decode("latin-1"))),
    "tx_clone": lambda v: un_tx(mk_tx(v).clone()),
    "script_parse_hex": lambda txt: un_script(Script.parse_hex(txt.decode("latin-1"))),
    "script_add": i_script_add,
    "script_eq": lambda a, b: mk_script(a) == mk_script(b),
    "fetch_net_run": i_fetch_net_run,
})
IMPL = {k: quiet(f) for k, f in IMPL.items()}

# ---------------------------------------------------------------- independent reference encoder


def ref_varint(n):
    if n < 0xfd:
        return struct.pack("<B", n)
    if n <= 0xffff:
        return b"\xfd" + struct.pack("<H", n)
    if n <= 0xffffffff:
        return b"\xfe" + struct.pack("<I", n)
    return b"\xff" + struct.pack("<Q", n)


def ref_cmds(cmds):
    out = b""
    for c in cmds:
        if isinstance(c, int):
            out += struct.pack("<B", c)
        else:
            n = len(c)
            if n <= 75:
                out += struct.pack("<B", n) + c
            elif n <= 255:
                out += b"\x4c" + struct.pack("<B", n) + c
            elif n <= 520:
                out += b"\x4d" + struct.pack("<H", n) + c
            else:
                raise ValueError("push too long")
    return out


def ref_script(sc):
    b = ref_cmds(sc[0])
    return ref_varint(len(b)) + b


def ref_legacy(v):
    ver, ins, outs, lt, _ = v
    out = struct.pack("<I", ver) + ref_varint(len(ins))
    for pt, pi, sc, sq, _w in ins:
        out += pt[::-1] + struct.pack("<I", pi) + ref_script(sc) + struct.pack("<I", sq)
    out += ref_varint(len(outs))
    for am, sc in outs:
        out += struct.pack("<Q", am) + ref_script(sc)
    return out + struct.pack("<I", lt)


def ref_full(v):
    ver, ins, outs, lt, sw = v
    if not sw:
        return ref_legacy(v)
    leg = ref_legacy(v)
    wit = b""
    for i in ins:
        wit += ref_varint(len(i[4])) + b"".join(ref_varint(len(x)) + x for x in i[4])
    return leg[:4] + b"\x00\x01" + leg[4:-4] + wit + leg[-4:]


def ref_witness(items):
    return ref_varint(len(items)) + b"".join(ref_varint(len(x)) + x for x in items)


def ref_txin(i):
    pt, pi, sc, sq, _w = i
    return pt[::-1] + struct.pack("<I", pi) + ref_script(sc) + struct.pack("<I", sq)


def ref_txout(o):
    am, sc = o
    return struct.pack("<Q", am) + ref_script(sc)


def ref_read_varint(raw):
    """(value, bytes consumed) of the compact size at the start of raw (all of its bytes present)"""
    w = {0xfd: 2, 0xfe: 4, 0xff: 8}.get(raw[0], 0)
    if w == 0:
        return raw[0], 1
    v = 0
    for k in range(w):
        v |= raw[1 + k] << (8 * k)
    return v, 1 + w


def ref_txid(v):
    return hashlib.sha256(hashlib.sha256(ref_legacy(v)).digest()).digest()[::-1].hex()


U32 = 2 ** 32
U64 = 2 ** 64


def cmds_serializable(cmds):
    return all((0 <= c <= 255) if isinstance(c, int) else len(c) <= 520 for c in cmds)


def cmds_wf(cmds):
    """commands that the wire format can represent: opcodes {0} u [79,255], pushes of 0..520 bytes"""
    return all((c == 0 or 79 <= c <= 255) if isinstance(c, int) else len(c) <= 520 for c in cmds)


def serializable(v):
    ver, ins, outs, lt, sw = v
    return (0 <= ver < U32 and 0 <= lt < U32 and
            all(0 <= i[1] < U32 and 0 <= i[3] < U32 and not len(i[2][1]) and cmds_serializable(i[2][0]) for i in ins) and
            all(0 <= o[0] < U64 and not len(o[1][1]) and cmds_serializable(o[1][0]) for o in outs))


def wf(v):
    ver, ins, outs, lt, sw = v
    return (serializable(v) and all(len(i[0]) == 32 and cmds_wf(i[2][0]) and (sw or not i[4]) for i in ins) and
            all(cmds_wf(o[1][0]) for o in outs))


def canon_cmds(cmds):
    return [0 if (not isinstance(c, int) and len(c) == 0) else c for c in cmds]


def canon_tx(v):
    ver, ins, outs, lt, sw = v
    return [ver, [[i[0], i[1], [canon_cmds(i[2][0]), []], i[3], list(i[4]) if sw else []] for i in ins],
            [[o[0], [canon_cmds(o[1][0]), []]] for o in outs], lt, 1 if sw else 0]


def _raises(f, *a):
    try:
        with contextlib.redirect_stdout(io.StringIO()):
            f(*a)
    except Exception:
        return True
    return False


# ---------------------------------------------------------------- property predicates


def p_script_rt(cmds):
    """Script(cmds).raw_serialize() is the minimal encoding and parses back to the same commands"""
    cmds = list(cmds)
    if not cmds_serializable(cmds):
        return None if _raises(Script(cmds).raw_serialize) else "unserialisable script was serialised"
    try:
        raw = Script(cmds).raw_serialize()
    except Exception as e:
        return f"raw_serialize raised {type(e).__name__} on a script of opcodes in [0,255] and pushes <= 520 bytes"
    if raw != ref_cmds(cmds):
        return "raw_serialize differs from the minimal push encoding"
    if not cmds_wf(cmds):
        return None
    with contextlib.redirect_stdout(io.StringIO()):
        sc = Script.parse(raw=raw)
        st = BytesIO(Script(cmds).serialize() + b"\x51")
        sc2 = Script.parse(st)
    if sc.commands != canon_cmds(cmds) or sc.raw is not None:
        return "Script.parse(raw_serialize(cmds)) != cmds"
    if sc2.commands != canon_cmds(cmds) or sc2.raw is not None or st.read() != b"\x51":
        return "Script.parse(stream) after serialize() != cmds"
    return None


def p_raw_fallback(raw):
    """a script whose pushes overrun the data keeps the original bytes and serialises back to them; an
    exactly parsed script has no .raw"""
    with contextlib.redirect_stdout(io.StringIO()):
        try:
            sc = Script.parse(raw=raw)
        except Exception as e:
            return f"Script.parse(raw=...) raised {type(e).__name__}"
        if sc.raw is not None:
            if sc.raw != raw or sc.raw_serialize() != raw or sc.serialize() != ref_varint(len(raw)) + raw:
                return "raw fallback does not reproduce the original script bytes"
    return None


def p_witness_rt(items, rest):
    items = list(items)
    raw = Witness(items).serialize()
    if raw != ref_varint(len(items)) + b"".join(ref_varint(len(x)) + x for x in items):
        return "witness layout"
    st = BytesIO(raw + rest)
    w = Witness.parse(st)
    if w.items != items or st.read() != rest:
        return "witness does not round-trip"
    return None


def p_tx_rt(v, rest):
    """API-built transaction -> serialize -> parse: every field equal; also equal to the reference layout"""
    if not serializable(v):
        try:
            with contextlib.redirect_stdout(io.StringIO()):
                mk_tx(v).serialize()
        except Exception:
            return None
        return "a transaction with an out-of-range field was serialised"
    with contextlib.redirect_stdout(io.StringIO()):
        t = mk_tx(v)
        raw = t.serialize()
        if raw != ref_full(v):
            return "serialize() differs from the reference wire layout"
        if t.serialize_legacy() != ref_legacy(v):
            return "serialize_legacy() differs from the reference wire layout"
        if not wf(v):
            return None
        st = BytesIO(raw + rest)
        try:
            t2 = Tx.parse(st)
        except Exception as e:
            return f"parse(serialize(tx)) raised {type(e).__name__}"
        got, left = un_tx(t2), st.read()
    if got != canon_tx(v):
        return "parse(serialize(tx)) differs from tx"
    if left != rest:
        return "parse(serialize(tx) + rest) consumed a different number of bytes"
    if t2.serialize() != raw:
        return "serialize(parse(serialize(tx))) differs"
    return None


def p_zero_inputs(ver, outs, lt):
    """the legacy (non-segwit) serialisation of a transaction without inputs does not parse back
    (its input count byte 0x00 is read as the segwit marker) — K-C04-zeroin"""
    return p_tx_rt([ver, [], list(outs), lt, 0], b"")


def p_bytes_rt(v):
    """canonical bytes (reference encoder) -> parse -> fields as encoded, serialize -> the same bytes"""
    if not wf(v):
        return None
    raw = ref_full(v)
    with contextlib.redirect_stdout(io.StringIO()):
        try:
            t = Tx.parse(BytesIO(raw))
        except Exception as e:
            return f"parse of a canonical encoding raised {type(e).__name__}"
        if un_tx(t) != canon_tx(v):
            return "parse of a canonical encoding gives different fields"
        if t.serialize() != raw:
            return "serialize(parse(bytes)) != bytes for a canonical encoding"
        if t.id() != ref_txid(v):
            return "id() of the parsed transaction is not the reversed double-SHA256 of the stripped bytes"
    return None


def p_txid(v1, v2):
    """id() is the reversed hash256 of the witness-stripped layout; two transactions have the same id
    iff their non-witness data agree"""
    if not (serializable(v1) and serializable(v2)):
        return None
    a, b = mk_tx(v1), mk_tx(v2)
    if a.id() != ref_txid(v1) or b.id() != ref_txid(v2) or a.hash().hex() != a.id():
        return "id() is not the byte-reversed double-SHA256 of the witness-stripped serialisation"
    same = ref_legacy(v1) == ref_legacy(v2)
    if same and a.id() != b.id():
        return "txid changed although only witness data / the segwit flag changed"
    if not same and a.id() == b.id():
        return "txid unchanged although non-witness data changed"
    return None


def p_txid_inplace(v1, v2):
    """the id is a function of the CURRENT fields: after the id (and repr) of an object were computed, editing
    the object in place to the fields of v2 makes id()/hash()/serialize agree with a fresh object for v2"""
    if not (serializable(v1) and serializable(v2)):
        return None
    a, b = mk_tx(v1), mk_tx(v2)
    first = a.id()
    if first != ref_txid(v1):
        return "id() of a fresh object is wrong"
    with contextlib.redirect_stdout(io.StringIO()):
        repr(a)
    a.hash()
    # field-wise in-place edit
    a.version, a.locktime, a.segwit = b.version, b.locktime, b.segwit
    a.tx_outs[:] = b.tx_outs
    a.tx_ins[:] = b.tx_ins
    if a.id() != ref_txid(v2) or a.hash().hex() != ref_txid(v2):
        return "id()/hash() after an in-place edit is not the txid of the current fields (stale value)"
    if a.serialize_legacy() != ref_legacy(v2):
        return "serialize_legacy() after an in-place edit does not reflect the current fields"
    # finer-grained edits on the same object: amount, sequence, locktime
    if a.tx_outs:
        a.tx_outs[0].amount = (a.tx_outs[0].amount + 1) % U64
    if a.tx_ins:
        a.tx_ins[0].sequence = type(a.tx_ins[0].sequence)((int(a.tx_ins[0].sequence) + 1) % U32)
    a.locktime = type(a.locktime)((int(a.locktime) + 1) % U32)
    want = hashlib.sha256(hashlib.sha256(a.serialize_legacy()).digest()).digest()[::-1].hex()
    fresh = Tx.parse(BytesIO(a.serialize())).id() if (a.segwit or a.tx_ins) else want
    if a.id() != want or fresh != want:
        return "id() after editing amount/sequence/locktime in place is stale"
    return None


def p_fetch(resp, idb, must_accept):
    """whatever the server returned, a transaction handed out (and cached) for tx_id hashes to tx_id"""
    tx_id = idb.decode("latin-1")
    TxFetcher.cache.clear()
    try:
        with contextlib.redirect_stdout(io.StringIO()):
            try:
                with fake_net([resp]):
                    t = TxFetcher.fetch(tx_id, fresh=True)
            except Exception as e:
                if must_accept:
                    return f"honest response rejected: {type(e).__name__}"
                if tx_id in TxFetcher.cache:
                    return "rejected response left an entry in the cache"
                return None
            legacy = t.serialize_legacy()
        real = hashlib.sha256(hashlib.sha256(legacy).digest()).digest()[::-1].hex()
        if t.id() != tx_id or real != tx_id:
            return f"fetch({tx_id[:16]}..) returned a transaction whose id is {real[:16]}.."
        c = TxFetcher.cache.get(tx_id)
        if c is not t:
            return "returned transaction is not the cached one"
        # second, non-fresh call must serve the same (checked) object without consulting the network
        with fake_net([b"00"]) as net:
            t2 = TxFetcher.fetch(tx_id)
        if t2 is not t or net.urls:
            return "cache hit did not return the verified object"
        return None
    finally:
        TxFetcher.cache.clear()


def _at(pre, enc, post):
    st = BytesIO(pre + enc + post)
    st.seek(len(pre))
    return st


def _mid_parsers(kind, val):
    """(reference encoding, [(name, parser, observed fields)], expected fields) for one object kind"""
    if kind == b"tx":
        want = canon_tx(val)
        direct = ("Tx.parse_segwit", Tx.parse_segwit) if val[4] else ("Tx.parse_legacy", Tx.parse_legacy)
        return ref_full(val), [("Tx.parse", Tx.parse, un_tx), direct + (un_tx,)], want
    if kind == b"txin":
        want = [val[0], val[1], [canon_cmds(val[2][0]), []], val[3], []]
        return ref_txin(val), [("TxIn.parse", TxIn.parse, un_txin)], want
    if kind == b"txout":
        want = [val[0], [canon_cmds(val[1][0]), []]]
        return ref_txout(val), [("TxOut.parse", TxOut.parse, un_txout)], want
    if kind == b"script":
        want = [canon_cmds(val), []]
        return ref_script([val]), [("Script.parse", Script.parse, un_script),
                                   ("Script.parse(stream=)", lambda st: Script.parse(stream=st), un_script),
                                   ("ScriptPubKey.parse", ScriptPubKey.parse, un_script)], want
    if kind == b"witness":
        return ref_witness(val), [("Witness.parse", Witness.parse, lambda w: list(w.items))], list(val)
    if kind == b"varint":
        return ref_varint(val), [("read_varint", read_varint, lambda n: n)], val
    if kind == b"varstr":
        return ref_varint(len(val)) + val, [("read_varstr", read_varstr, lambda b: b)], val
    if kind == b"u32":
        return struct.pack("<I", val), [("Locktime.parse", Locktime.parse, int), ("Sequence.parse", Sequence.parse, int)], val
    raise ValueError("unknown kind")


def p_mid_stream(kind, pre, val, post):
    """the canonical encoding of an object sits in the MIDDLE of a stream (bytes before and after it): every
    parser of the codec, started at the first byte of the object, returns the encoded fields, consumes exactly
    the object's own bytes and leaves the stream position right behind them"""
    enc, parsers, want = _mid_parsers(kind, val)
    for name, parse, fields in parsers:
        st = _at(pre, enc, post)
        with contextlib.redirect_stdout(io.StringIO()):
            try:
                obj = parse(st)
            except Exception as e:
                return f"{name} raised {type(e).__name__} on a canonical encoding at offset {len(pre)} of a stream"
            got = fields(obj)
        if sexp_canon(got) != sexp_canon(want):
            return f"{name} at offset {len(pre)} of a stream returns different fields than the encoded ones"
        if st.tell() != len(pre) + len(enc):
            return (f"{name} started at offset {len(pre)} left the stream at {st.tell()}, the object ends at "
                    f"{len(pre) + len(enc)}")
        if st.read() != post:
            return f"{name}: the bytes after the object are no longer next in the stream"
        if st.getvalue() != pre + enc + post:
            return f"{name} modified the stream"
    return None


def p_tx_sequence(pre, vals, post):
    """several transactions back to back in one stream (as in a block): each Tx.parse returns the next one"""
    vals = list(vals)
    encs = [ref_full(v) for v in vals]
    st = _at(pre, b"".join(encs), post)
    pos = len(pre)
    with contextlib.redirect_stdout(io.StringIO()):
        for k, (v, e) in enumerate(zip(vals, encs)):
            try:
                t = Tx.parse(st)
            except Exception as ex:
                return f"Tx.parse raised {type(ex).__name__} on transaction #{k} of a stream of canonical encodings"
            pos += len(e)
            if un_tx(t) != canon_tx(v) or t.serialize() != e or t.id() != ref_txid(v):
                return f"transaction #{k} of a stream of transactions is not parsed as encoded"
            if st.tell() != pos:
                return f"after transaction #{k} the stream is at {st.tell()}, the transaction ends at {pos}"
    if st.read() != post:
        return "bytes after the last transaction are not next in the stream"
    return None


def p_varint(n, pre, post):
    """encode_varint is the minimal compact size of every n in [0, 2^64) (all four widths) and raises outside;
    read_varint/read_varstr read it back from anywhere in a stream and stop right behind it"""
    if not 0 <= n < U64:
        return None if _raises(encode_varint, n) else f"encode_varint({n}) did not raise"
    try:
        enc = encode_varint(n)
    except Exception as e:
        return f"encode_varint({n}) raised {type(e).__name__}"
    if enc != ref_varint(n):
        return f"encode_varint({n}) is not the minimal compact size"
    st = _at(pre, enc, post)
    try:
        got = read_varint(st)
    except Exception as e:
        return f"read_varint raised {type(e).__name__} on encode_varint({n})"
    if got != n or st.tell() != len(pre) + len(enc) or st.read() != post:
        return f"read_varint(encode_varint({n})) gives {got} / wrong stream position"
    return None


def p_varint_decode(raw, pre):
    """read_varint on a complete compact size (any first byte, minimal or not) equals the reference decoder and
    consumes 1/3/5/9 bytes"""
    want, used = ref_read_varint(raw)
    st = _at(pre, raw, b"")
    try:
        got = read_varint(st)
    except Exception as e:
        return f"read_varint raised {type(e).__name__} on a complete compact size"
    if got != want:
        return f"read_varint gives {got}, the compact size encodes {want}"
    if st.tell() != len(pre) + used:
        return f"read_varint consumed {st.tell() - len(pre)} bytes of a {used}-byte compact size"
    return None


def p_varstr(data, pre, post):
    enc = encode_varstr(data)
    if enc != ref_varint(len(data)) + data:
        return "encode_varstr layout"
    st = _at(pre, enc, post)
    got = read_varstr(st)
    if got != data or st.tell() != len(pre) + len(enc) or st.read() != post:
        return "read_varstr(encode_varstr(data)) differs / wrong stream position"
    return None


def p_api_forms(v):
    """the other entry points of the same codec: parse_hex, clone, constructor defaults"""
    if not (wf(v) and (v[4] or v[1])):
        return None
    raw = ref_full(v)
    with contextlib.redirect_stdout(io.StringIO()):
        t = Tx.parse_hex(raw.hex())
        if un_tx(t) != canon_tx(v) or t.serialize() != raw:
            return "Tx.parse_hex(hex of a canonical encoding) differs from the encoded fields"
        a = mk_tx(v)
        c = a.clone()
        if c is a or c.serialize() != raw or un_tx(c) != canon_tx(v) or c.id() != ref_txid(v):
            return "clone() is not a field-for-field copy"
        if any(x is y for x, y in zip(a.tx_ins, c.tx_ins)) or any(x is y for x, y in zip(a.tx_outs, c.tx_outs)) \
                or c.tx_ins is a.tx_ins or c.tx_outs is a.tx_outs:
            return "clone() shares inputs/outputs with the original"
        c.locktime = Locktime((int(c.locktime) + 1) % U32)
        if c.tx_ins:
            c.tx_ins[0].prev_index = (c.tx_ins[0].prev_index + 1) % U32
            c.tx_ins[0].witness.items.append(b"x")
            c.tx_ins[0].script_sig.commands.append(0x51)
        if c.tx_outs:
            c.tx_outs[0].amount = (c.tx_outs[0].amount + 1) % U64
            c.tx_outs[0].script_pubkey.commands.append(0x51)
        c.tx_outs.append(TxOut(1, Script([0x51])))
        if a.serialize() != raw or a.id() != ref_txid(v):
            return "editing a clone() changed the original"
        # constructor defaults: locktime 0, sequence 0xffffffff, empty scriptSig, empty witness
        ver, ins, outs, lt, sw = v
        d = Tx(ver, [TxIn(i[0], i[1]) for i in ins], [mk_txout(o) for o in outs], segwit=bool(sw))
        dv = [ver, [[i[0], i[1], [[], []], 0xffffffff, []] for i in ins], outs, 0, sw]
        if d.serialize() != ref_full(dv) or d.id() != ref_txid(dv):
            return "defaults of Tx(...)/TxIn(...) are not locktime 0 / sequence 0xffffffff / empty scriptSig / no witness"
        d2 = Tx(ver, [mk_txin(i) for i in ins], [mk_txout(o) for o in outs], None, segwit=bool(sw))
        if d2.serialize() != ref_full([ver, ins, outs, 0, sw]):
            return "Tx(..., locktime=None) does not serialise locktime 0"
        # a transaction built without the segwit argument is a legacy one (no marker, no witness section)
        if ins:
            for d3 in (Tx(ver, [mk_txin(i) for i in ins], [mk_txout(o) for o in outs], lt),
                       Tx(ver, [mk_txin(i) for i in ins], [mk_txout(o) for o in outs], lt, "mainnet"),
                       Tx(ver, [mk_txin(i) for i in ins], [mk_txout(o) for o in outs])):
                want = ref_legacy([ver, ins, outs, int(d3.locktime), 0])
                if d3.segwit is not False or d3.serialize() != want or int(d3.locktime) not in (lt, 0):
                    return "Tx(version, tx_ins, tx_outs[, locktime]) without the segwit argument is not serialised as a legacy transaction"
                if un_tx(Tx.parse(BytesIO(want))) != canon_tx([ver, ins, outs, int(d3.locktime), 0]):
                    return "a transaction built without the segwit argument does not parse back to its fields"
    return None


def p_script_api(a, b, pre):
    """Script.parse_hex, Script + Script, the stream=/raw= argument check, Witness defaults and clone"""
    a, b = list(a), list(b)
    if not (cmds_wf(a) and cmds_wf(b)):
        return None
    raw = ref_cmds(a)
    with contextlib.redirect_stdout(io.StringIO()):
        sc = Script.parse_hex(raw.hex())
        if sc.commands != canon_cmds(a) or sc.raw is not None or sc.raw_serialize() != raw:
            return "Script.parse_hex(hex of a canonical script) differs"
        sa, sb = Script(list(a)), Script(list(b))
        both = sa + sb
        if both.raw_serialize() != ref_cmds(a + b) or both.serialize() != ref_script([a + b]):
            return "Script(a) + Script(b) does not serialise as the concatenated commands"
        # the operands are observed AFTER the sum was produced, and again after the sum was edited in place
        if sa.commands != a or sb.commands != b or sa.raw_serialize() != raw or sb.raw_serialize() != ref_cmds(b):
            return "Script + Script changed an operand"
        both.commands.append(0x51)
        if sa.commands != a or sb.commands != b or both.commands is sa.commands or both.commands is sb.commands:
            return "the result of Script + Script shares its command list with an operand"
        if (sa + sb).raw_serialize() != ref_cmds(a + b) or (sb + sa).raw_serialize() != ref_cmds(b + a):
            return "a second Script + Script of the same operands differs"
        # the library's notion of "same script": a parsed script equals the one that was serialised, and only that
        if not (sc == Script(canon_cmds(a))) or not (Script.parse(_at(pre, ref_script([a]), b"\x51")) == sc):
            return "a script parsed from its canonical encoding does not compare equal (==) to the original"
        if sc == Script(canon_cmds(a) + [0x51]) or (a and sc == Script(canon_cmds(a)[:-1])):
            return "scripts with different commands compare equal (==)"
        if not _raises(Script.parse):
            return "Script.parse() without stream and raw did not raise"
        if raw and not _raises(lambda: Script.parse(_at(pre, ref_script([a]), b""), raw)):
            return "Script.parse(stream, raw) with both arguments did not raise"
        if Witness().serialize() != b"\x00" or Witness(None).items != [] or Witness([]).serialize() != b"\x00":
            return "empty Witness() does not serialise as a zero count"
        items = [x for x in a + b if not isinstance(x, int)]
        w = Witness(list(items))
        c = w.clone()
        if c.serialize() != ref_witness(items) or len(c) != len(items) or [c[k] for k in range(len(items))] != items:
            return "Witness.clone() differs"
        c.items.append(b"z")
        if w.serialize() != ref_witness(items):
            return "editing a Witness.clone() changed the original"
    return None


NETWORKS = (b"mainnet", b"testnet", b"signet")


def p_fetch_network(resp, idb, net, must_accept):
    """the integrity check holds on every network the fetcher serves; an unknown network is refused without a request"""
    tx_id, network = idb.decode("latin-1"), net.decode("latin-1")
    TxFetcher.cache.clear()
    try:
        with contextlib.redirect_stdout(io.StringIO()):
            with fake_net([resp]) as fn:
                try:
                    t = TxFetcher.fetch(tx_id, network=network, fresh=True)
                except Exception as e:
                    if net not in NETWORKS:
                        return "a request was sent for an unknown network" if fn.urls else None
                    if must_accept:
                        return f"honest response rejected on {network}: {type(e).__name__}"
                    return "rejected response left an entry in the cache" if tx_id in TxFetcher.cache else None
            if net not in NETWORKS:
                return "fetch for an unknown network returned a transaction"
            real = hashlib.sha256(hashlib.sha256(t.serialize_legacy()).digest()).digest()[::-1].hex()
        if real != tx_id or t.id() != tx_id:
            return f"fetch on {network} returned a transaction whose id is {real[:16]}.., requested {tx_id[:16]}.."
        if t.network != network:
            return "returned transaction carries another network"
        if len(fn.urls) != 1 or not fn.urls[0].endswith("/tx/" + tx_id + "/hex") or not fn.urls[0].startswith("https://"):
            return "unexpected request url"
        if (network != "mainnet") != (network in fn.urls[0]):
            return "request went to the endpoint of another network"
        return None
    finally:
        TxFetcher.cache.clear()


def ref_is_canon_script(raw):
    """independent recogniser of Spec/ScriptCanon.canon_script_bytes: opcodes 0x00 / 0x4f..0xff, direct pushes of
    1..75 bytes, OP_PUSHDATA1 for 76..255, OP_PUSHDATA2 for 256..520, every push complete"""
    i, n = 0, len(raw)
    while i < n:
        b = raw[i]
        if b == 0 or b >= 79:
            i += 1
            continue
        if 1 <= b <= 75:
            ln, hdr = b, 1
        elif b == 76:
            if i + 2 > n:
                return False
            ln, hdr = raw[i + 1], 2
            if not 76 <= ln <= 255:
                return False
        elif b == 77:
            if i + 3 > n:
                return False
            ln, hdr = raw[i + 1] | (raw[i + 2] << 8), 3
            if not 256 <= ln <= 520:
                return False
        else:
            return False
        if i + hdr + ln > n:
            return False
        i += hdr + ln
    return True


def p_script_canon(raw):
    """the converse of the script round trip, for ANY byte string: Script.parse(raw=b).raw_serialize() == b exactly
    when b is a canonical encoding (independent recogniser) or the parser fell back to .raw (Coq:
    C04_script_reserialize_iff)"""
    with contextlib.redirect_stdout(io.StringIO()):
        try:
            sc = Script.parse(raw=raw)
        except Exception:
            return "canonical script bytes were rejected by Script.parse" if ref_is_canon_script(raw) else None
        try:
            same = sc.raw_serialize() == raw
        except Exception:
            same = False
    canon = ref_is_canon_script(raw)
    if canon and sc.raw is not None:
        return "Script.parse fell back to .raw on a canonical encoding"
    if same != (canon or sc.raw is not None):
        return ("canonical script bytes are not reproduced by parse + raw_serialize" if canon else
                "non-canonical script bytes (exactly parsed) are reproduced by parse + raw_serialize")
    return None


def p_fetch_cross_network(resp, idb, net1, net2):
    """the cache is keyed by the id only: after a fetch on net1, a non-fresh fetch of the same id under any other
    network name is served from the cache without a request — what it returns still hashes to the id"""
    tx_id = idb.decode("latin-1")
    TxFetcher.cache.clear()
    try:
        with contextlib.redirect_stdout(io.StringIO()):
            with fake_net([resp]):
                try:
                    t = TxFetcher.fetch(tx_id, network=net1.decode("latin-1"), fresh=True)
                except Exception:
                    return None
            with fake_net([b"00"]) as fn:
                try:
                    t2 = TxFetcher.fetch(tx_id, network=net2.decode("latin-1"))
                except Exception as e:
                    return f"cached id not served on another network name: {type(e).__name__}"
            real = hashlib.sha256(hashlib.sha256(t2.serialize_legacy()).digest()).digest()[::-1].hex()
        if real != tx_id or t2.id() != tx_id:
            return "a transaction served from the cache for another network does not hash to the requested id"
        if fn.urls:
            return "a cached id caused a request"
        if t2 is not t or t2.network != net2.decode("latin-1"):
            return "cache hit is not the cached object relabelled with the requested network"
        return None
    finally:
        TxFetcher.cache.clear()


# ---------------------------------------------------------------- audit (round 3 blind spots): other entry points,
# defaults edited in place, per-element attributes, state shared between a result and its source, failure + retry


def _h256(b):
    return hashlib.sha256(hashlib.sha256(b).digest()).digest()


def _copy_v(v):
    ver, ins, outs, lt, sw = v
    return [ver, [[i[0], i[1], [list(i[2][0]), []], i[3], list(i[4])] for i in ins],
            [[o[0], [list(o[1][0]), []]] for o in outs], lt, sw]


def p_defaults_isolated(pt1, pt2, push, item):
    """default-constructed parts (TxIn() script_sig / witness, Script(), Witness(), parsed empty ones) are private
    to their owner: editing one in place is serialised by its owner and by nobody else"""
    with contextlib.redirect_stdout(io.StringIO()):
        a = TxIn(pt1, 0)
        b = TxIn(pt2, 1)
        first = a.serialize()
        a.script_sig.commands.append(push)
        a.witness.items.append(item)
        c = TxIn(pt2, 2)
        va = [pt1, 0, [[push], []], 0xffffffff, [item]]
        vb = [pt2, 1, [[], []], 0xffffffff, []]
        vc = [pt2, 2, [[], []], 0xffffffff, []]
        if first != ref_txin([pt1, 0, [[], []], 0xffffffff, []]):
            return "TxIn(prev_tx, prev_index) does not serialise with an empty scriptSig and sequence 0xffffffff"
        if a.serialize() != ref_txin(va):
            return "an in-place edit of the default scriptSig of a TxIn is not serialised"
        if b.serialize() != ref_txin(vb) or c.serialize() != ref_txin(vc) or b.script_sig.commands or c.script_sig.commands:
            return "the default scriptSig of one TxIn is shared with another TxIn"
        if list(b.witness.items) or list(c.witness.items) or list(a.witness.items) != [item]:
            return "the default witness of one TxIn is shared with another TxIn"
        v = [2, [va, vb, vc], [], 0, 1]
        t = Tx(2, [a, b, c], [], segwit=True)
        if t.serialize() != ref_full(v) or t.id() != ref_txid(v) or t.serialize_legacy() != ref_legacy(v):
            return "a transaction of default-constructed inputs, one of them edited in place, is not serialised field for field"
        s1 = Script()
        s1.commands.append(push)
        if Script().commands != [] or Script(None).commands != [] or Script().serialize() != b"\x00" or s1.serialize() != ref_script([[push]]):
            return "Script() objects share their command list"
        w1 = Witness()
        w1.items.append(item)
        if Witness().items != [] or Witness(None).items != [] or Witness().serialize() != b"\x00" or w1.serialize() != ref_witness([item]):
            return "Witness() objects share their item list"
        p1 = Script.parse(raw=b"")
        p1.commands.append(push)
        p2 = Script.parse(BytesIO(b"\x00"))
        p2.commands.append(0x51)
        if Script.parse(raw=b"").commands != [] or Script.parse(BytesIO(b"\x00")).commands != [] or Script().commands != []:
            return "parsed empty scripts share their command list"
        q1 = Witness.parse(BytesIO(b"\x00"))
        q1.items.append(item)
        if Witness.parse(BytesIO(b"\x00")).items != [] or Witness().items != []:
            return "parsed empty witnesses share their item list"
        e1 = Tx.parse(BytesIO(ref_full([2, [], [], 0, 1])))
        e1.tx_ins.append(a)
        e1.tx_outs.append(TxOut(1, Script([0x51])))
        e2 = Tx.parse(BytesIO(ref_full([2, [], [], 0, 1])))
        if e2.tx_ins != [] or e2.tx_outs != [] or e2.serialize() != ref_full([2, [], [], 0, 1]):
            return "parsed transactions without inputs/outputs share their lists"
        if e1.serialize() != ref_full([2, [va], [[1, [[0x51], []]]], 0, 1]):
            return "inputs/outputs appended to a parsed empty transaction are not serialised"
        # a second in-place edit of `a`, after everything above was serialised once
        a.script_sig.commands.append(0xac)
        a.witness.items.insert(0, b"")
        va2 = [pt1, 0, [[push, 0xac], []], 0xffffffff, [b"", item]]
        v2 = [2, [va2, vb, vc], [], 0, 1]
        if t.serialize() != ref_full(v2) or t.id() != ref_txid(v2) or b.serialize() != ref_txin(vb):
            return "a second in-place edit of a default-constructed input is not reflected / leaks to another input"
    return None


def p_finalize_forms(pt, idx, sigs, sec, cmds):
    """the API that fills scriptSig / witness (TxIn.finalize_*): every signature in its own slot, in order, the
    script raw-serialised as one push; checked on the wire against the reference encoder"""
    sigs, cmds = list(sigs), list(cmds)
    raw = ref_cmds(cmds)
    s256 = hashlib.sha256(raw).digest()
    out = [7, [[0x51], []]]

    def chk(name, i, sc, wit):
        want = [pt, idx, [sc, []], 0xffffffff, wit]
        if i.serialize() != ref_txin(want):
            return f"{name}: scriptSig on the wire differs from the reference"
        if list(i.witness.items) != wit:
            return f"{name}: witness items differ"
        v = [2, [want], [out], 0, 1]
        t = Tx(2, [i], [mk_txout(out)], segwit=True)
        if t.serialize() != ref_full(v) or t.id() != ref_txid(v):
            return f"{name}: transaction bytes / id differ from the reference"
        back = Tx.parse(BytesIO(ref_full(v)))
        if un_tx(back) != canon_tx(v):
            return f"{name}: the finalised input does not parse back to its fields"
        return None

    with contextlib.redirect_stdout(io.StringIO()):
        steps = []
        i = TxIn(pt, idx)
        i.finalize_p2pkh(sigs[0], sec)
        steps.append(("finalize_p2pkh", i, [sigs[0], sec], []))
        i = TxIn(pt, idx, Script([b"stale", 0x51]))
        i.finalize_p2wpkh(sigs[0], sec)
        steps.append(("finalize_p2wpkh", i, [], [sigs[0], sec]))
        i = TxIn(pt, idx)
        i.finalize_p2wpkh(sigs[-1], sec, RedeemScript(list(cmds)))
        steps.append(("finalize_p2wpkh(redeem_script)", i, [raw], [sigs[-1], sec]))
        i = TxIn(pt, idx)
        i.finalize_p2sh_multisig(list(sigs), RedeemScript(list(cmds)))
        steps.append(("finalize_p2sh_multisig", i, [0] + sigs + [raw], []))
        i = TxIn(pt, idx)
        i.finalize_p2wsh_multisig(list(sigs), WitnessScript(list(cmds)))
        steps.append(("finalize_p2wsh_multisig", i, [], [b""] + sigs + [raw]))
        i = TxIn(pt, idx)
        i.finalize_p2sh_p2wsh_multisig(list(sigs), WitnessScript(list(cmds)))
        steps.append(("finalize_p2sh_p2wsh_multisig", i, [b"\x00\x20" + s256], [b""] + sigs + [raw]))
        i = TxIn(pt, idx)
        i.finalize_p2tr_keypath(sigs[0])
        steps.append(("finalize_p2tr_keypath", i, [], [sigs[0]]))
        # re-finalising the same input replaces, never accumulates
        i = TxIn(pt, idx)
        i.finalize_p2wsh_multisig(list(sigs), WitnessScript(list(cmds)))
        i.finalize_p2wpkh(sigs[0], sec)
        i.finalize_p2tr_keypath(sigs[-1])
        steps.append(("finalize twice", i, [], [sigs[-1]]))
        for name, i, sc, wit in steps:
            r = chk(name, i, sc, wit)
            if r:
                return r
    return None


def p_inplace_deep(v, push, item, net):
    """serialize()/id() are functions of the CURRENT contents down to script commands and witness items: after a
    first serialisation, commands / items / objects are edited in place step by step and compared with the
    reference encoder each time; a clone taken before the edits keeps the old contents (and the network label)"""
    if not (wf(v) and v[1] and v[2]):
        return None
    network = net.decode("latin-1")
    with contextlib.redirect_stdout(io.StringIO()):
        for built in (0, 1):
            cur = _copy_v(canon_tx(v) if built else v)
            ver, ins, outs, lt, sw = cur
            if built:
                t = Tx.parse(BytesIO(ref_full(v)), network=network)
            else:
                t = Tx(ver, [mk_txin(i) for i in ins], [mk_txout(o) for o in outs], lt, network, bool(sw))
            how = "parsed" if built else "API-built"
            if t.network != network:
                return f"{how} transaction does not carry the network it was given"
            snap = _copy_v(canon_tx(cur))
            if t.serialize() != ref_full(cur) or t.id() != ref_txid(cur):
                return None     # reported by tx_rt / bytes_rt
            repr(t)
            for x in t.tx_ins:
                x.serialize(), x.script_sig.serialize(), x.script_sig.raw_serialize(), x.witness.serialize()
            for x in t.tx_outs:
                x.serialize(), x.script_pubkey.serialize()
            c = t.clone()

            def bad(step):
                if t.serialize() != ref_full(cur) or t.serialize_legacy() != ref_legacy(cur):
                    return f"{how} transaction: serialize() after {step} does not reflect the current contents"
                if t.id() != ref_txid(cur) or t.hash() != bytes.fromhex(ref_txid(cur)):
                    return f"{how} transaction: id()/hash() after {step} is not the txid of the current contents"
                return None

            before = ref_txid(cur)
            ins[-1][2][0].append(push)
            t.tx_ins[-1].script_sig.commands.append(push)
            r = bad("appending a push to a scriptSig in place")
            if r or ref_txid(cur) == before:
                return r or "reference error"
            before = ref_txid(cur)
            ins[0][4].append(item)
            t.tx_ins[0].witness.items.append(item)
            r = bad("appending a witness item in place")
            if r or t.id() != before:
                return r or "txid changed by a witness edit"
            outs[-1][1][0].append(0xac)
            t.tx_outs[-1].script_pubkey.commands.append(0xac)
            r = bad("appending an opcode to a scriptPubKey in place")
            if r:
                return r
            outs[0][1][0][:] = [0x6a, push]
            t.tx_outs[0].script_pubkey.commands[:] = [0x6a, push]
            r = bad("replacing the commands of a scriptPubKey in place")
            if r:
                return r
            ins[0][2][0][:] = [item + b"\x01"]
            t.tx_ins[0].script_sig = Script([item + b"\x01"])
            ins[0][4][:] = [item, b""]
            t.tx_ins[0].witness = Witness([item, b""])
            r = bad("assigning a new scriptSig and witness")
            if r:
                return r
            ins.append([bytes(32), 0xffffffff, [[], []], 0xffffffff, []])
            t.tx_ins.append(TxIn(bytes(32), 0xffffffff))
            outs.pop()
            t.tx_outs.pop()
            r = bad("appending an input and removing an output")
            if r:
                return r
            cur[4] = 1 - cur[4]
            t.segwit = not t.segwit
            r = bad("flipping the segwit flag")
            if r:
                return r
            # the clone was taken before the edits of its SOURCE
            if un_tx(c) != snap or c.serialize() != ref_full(snap) or c.id() != ref_txid(snap):
                return f"{how} transaction: editing the source after clone() changed the clone"
            if c.network != network:
                return "clone() does not keep the network of its source"
    return None


def p_entry_points(v, net):
    """the less travelled doors into the same codec, with a non-default network: Tx.parse / parse_hex /
    parse_legacy / parse_segwit (positional, keyword), the conversion helpers of the script subclasses"""
    if not (wf(v) and (v[4] or v[1])):
        return None
    network = net.decode("latin-1")
    raw = ref_full(v)
    want = canon_tx(v)
    direct = Tx.parse_segwit if v[4] else Tx.parse_legacy
    with contextlib.redirect_stdout(io.StringIO()):
        forms = [("Tx.parse(s, network)", lambda: Tx.parse(BytesIO(raw), network)),
                 ("Tx.parse(s=, network=)", lambda: Tx.parse(s=BytesIO(raw), network=network)),
                 ("Tx.parse_hex(s, network)", lambda: Tx.parse_hex(raw.hex(), network)),
                 ("Tx.parse_hex(s=, network=)", lambda: Tx.parse_hex(s=raw.hex().upper(), network=network)),
                 ("direct parser", lambda: direct(BytesIO(raw), network)),
                 ("direct parser(network=)", lambda: direct(s=BytesIO(raw), network=network))]
        for name, f in forms:
            try:
                t = f()
            except Exception as e:
                return f"{name} raised {type(e).__name__} on a canonical encoding"
            if un_tx(t) != want or t.serialize() != raw or t.id() != ref_txid(v):
                return f"{name} returns different fields than the encoded ones"
            if t.network != network:
                return f"{name} does not label the transaction with the given network"
        for name, f in (("Tx.parse(s)", lambda: Tx.parse(BytesIO(raw))), ("Tx.parse_hex(s)", lambda: Tx.parse_hex(raw.hex())),
                        ("direct parser(s)", lambda: direct(BytesIO(raw)))):
            t = f()
            if t.network != "mainnet" or un_tx(t) != want:
                return f"{name} without a network is not a mainnet transaction with the encoded fields"
        for i in v[1]:
            cmds = list(i[2][0])
            rs = ref_cmds(cmds)
            for cls in (RedeemScript, WitnessScript):
                sc = cls.convert(rs)
                if type(sc) is not cls or sc.commands != canon_cmds(cmds) or sc.raw is not None or sc.raw_serialize() != rs:
                    return f"{cls.__name__}.convert(raw) is not the script that serialises to raw"
                sc = cls.parse(BytesIO(ref_script([cmds]) + b"\x51"))
                if type(sc) is not cls or sc.commands != canon_cmds(cmds) or sc.serialize() != ref_script([cmds]):
                    return f"{cls.__name__}.parse(stream) differs from the encoded script"
                if cls(list(cmds)).serialize() != ref_script([cmds]):
                    return f"{cls.__name__}(commands).serialize() differs from the reference"
    return None


def _cache_ok():
    for k, tx in TxFetcher.cache.items():
        if _h256(tx.serialize_legacy())[::-1].hex() != k:
            return f"the cache holds under {str(k)[:16]}.. a transaction that does not hash to that id"
    return None


def p_fetch_history(ops):
    """any history of fetches (fresh or not, honest / lying / broken server, any network name): whatever is handed
    out hashes to the requested id, and after EVERY call - also one that raised - every cache entry hashes to its
    key; an honest answer on a served network is accepted, also right after a refused one"""
    TxFetcher.cache.clear()
    try:
        with contextlib.redirect_stdout(io.StringIO()):
            for k, (fresh, resp, idb, net, must) in enumerate(ops):
                tx_id, network = idb.decode("latin-1"), net.decode("latin-1")
                had = TxFetcher.cache.get(tx_id)
                with fake_net([resp]) as fn:
                    try:
                        t = TxFetcher.fetch(tx_id, network=network, fresh=bool(fresh))
                    except Exception as e:
                        t = None
                        if must:
                            return f"call #{k}: honest response rejected ({type(e).__name__})"
                bad = _cache_ok()
                if bad:
                    return f"call #{k} ({'raised' if t is None else 'returned'}): {bad}"
                if t is None:
                    if had is not None and TxFetcher.cache.get(tx_id) is not had:
                        return f"call #{k} raised and replaced / dropped the verified cache entry"
                    continue
                if _h256(t.serialize_legacy())[::-1].hex() != tx_id or t.id() != tx_id:
                    return f"call #{k} returned a transaction that does not hash to the requested id"
                if had is not None and not fresh and (t is not had or fn.urls):
                    return f"call #{k}: a cached id was not served from the cache"
        return None
    finally:
        TxFetcher.cache.clear()


def p_cache_file(entries, extra):
    """the disk cache: dump_cache writes {id: hex of the full serialisation}; load_cache of that file serves every
    id without a request, the same bytes, hashing to the id"""
    entries = list(entries)
    fd, path = tempfile.mkstemp(prefix="c04cache", suffix=".json")
    os.close(fd)
    TxFetcher.cache.clear()
    try:
        with contextlib.redirect_stdout(io.StringIO()):
            for resp, idb in entries:
                with fake_net([resp]):
                    TxFetcher.fetch(idb.decode("latin-1"), fresh=True)
            TxFetcher.dump_cache(path)
            disk = json.loads(open(path).read())
            want = {idb.decode("latin-1"): bytes.fromhex(resp.decode("latin-1")).hex() for resp, idb in entries}
            if disk != want:
                return "dump_cache does not write {txid: hex of the full serialisation}"
            TxFetcher.cache.clear()
            if len(extra):       # an entry fetched before loading stays, and is the one served
                with fake_net([extra[0][0]]):
                    TxFetcher.fetch(extra[0][1].decode("latin-1"))
            TxFetcher.load_cache(path)
            for resp, idb in entries + [list(e) for e in extra]:
                tx_id = idb.decode("latin-1")
                with fake_net([b"00"]) as fn:
                    t = TxFetcher.fetch(tx_id, network="testnet")
                if fn.urls:
                    return "an id loaded from the disk cache caused a request"
                if t.serialize() != bytes.fromhex(resp.decode("latin-1")):
                    return "a transaction loaded from the disk cache does not serialise to the dumped bytes"
                if _h256(t.serialize_legacy())[::-1].hex() != tx_id or t.id() != tx_id:
                    return "a transaction loaded from the disk cache does not hash to its id"
            return _cache_ok()
    finally:
        TxFetcher.cache.clear()
        os.unlink(path)


class fake_net_map:
    """replaces buidl.tx.urlopen by a stub that answers by requested id (last path element before /hex)"""

    def __init__(self, table):
        self.table = dict(table)
        self.urls = []

    def __enter__(self):
        self.old = btx.urlopen
        btx.urlopen = self._open
        return self

    def __exit__(self, *a):
        btx.urlopen = self.old

    def _open(self, req, *a, **k):
        self.urls.append(req.full_url)
        return _Resp(self.table[req.full_url.split("/")[-2]])


def p_prevouts(prevs, spends, net, lie):
    """the consumers of the fetcher on a transaction whose inputs spend DIFFERENT outputs of different previous
    transactions: TxIn.value / script_pubkey / fetch_tx, Tx.fee, Tx.get_input_tx_lookup give, per input, the
    amount and script of exactly that outpoint, ask the endpoint of the transaction's network, once per previous
    transaction; with a lying server for one of them nothing is handed out, and the honest retry works"""
    prevs, spends = list(prevs), list(spends)
    network = net.decode("latin-1")
    ids = [ref_txid(p) for p in prevs]
    honest = {ids[k]: ref_full(p).hex().encode() for k, p in enumerate(prevs)}
    amounts = [prevs[k][2][j][0] for k, j in spends]
    scripts = [canon_cmds(prevs[k][2][j][1][0]) for k, j in spends]

    def spender():
        return Tx(2, [TxIn(bytes.fromhex(ids[k]), j) for k, j in spends], [TxOut(1, Script([0x51]))], 0, network, True)

    TxFetcher.cache.clear()
    try:
        with contextlib.redirect_stdout(io.StringIO()):
            if lie:
                k0, other = lie[0]
                table = dict(honest)
                table[ids[k0]] = other
                t = spender()
                for name, f in (("fee()", t.fee), ("get_input_tx_lookup()", t.get_input_tx_lookup)):
                    with fake_net_map(table):
                        try:
                            f()
                        except Exception:
                            pass
                        else:
                            return f"{name} returned although the server answered another transaction for a prevout"
                    bad = _cache_ok()
                    if bad:
                        return f"after a refused prevout: {bad}"
                for n, (k, j) in enumerate(spends):
                    if k != k0:
                        continue
                    with fake_net_map(table):
                        for name, f in (("value()", t.tx_ins[n].value), ("script_pubkey()", t.tx_ins[n].script_pubkey),
                                        ("fetch_tx()", t.tx_ins[n].fetch_tx)):
                            try:
                                f(network)
                            except Exception:
                                continue
                            return f"TxIn.{name} returned although the server answered another transaction"
                # the same object is used again with an honest server below
            else:
                t = spender()
            with fake_net_map(honest) as fn:
                fee = t.fee()
                if fee != sum(amounts) - 1:
                    return "fee() is not the sum of the spent outputs' amounts minus the outputs"
                for n, x in enumerate(t.tx_ins):
                    if x.value(network) != amounts[n]:
                        return f"input #{n}: value() is not the amount of the outpoint it spends"
                    sp = x.script_pubkey(network)
                    if sp.commands != scripts[n] or sp.serialize() != ref_script([scripts[n]]):
                        return f"input #{n}: script_pubkey() is not the script of the outpoint it spends"
                    if _h256(x.fetch_tx(network).serialize_legacy())[::-1] != x.prev_tx:
                        return f"input #{n}: fetch_tx() does not hash to prev_tx"
                look = t.get_input_tx_lookup()
                if set(look) != {bytes.fromhex(ids[k]) for k, _ in spends}:
                    return "get_input_tx_lookup() keys are not the spent transaction hashes"
                for h, p in look.items():
                    if _h256(p.serialize_legacy())[::-1] != h or p.serialize() != bytes.fromhex(honest[h.hex()].decode()):
                        return "get_input_tx_lookup() maps a hash to another transaction"
                if not lie and sorted(u.split("/")[-2] for u in fn.urls) != sorted({ids[k] for k, _ in spends}):
                    return "a previous transaction was requested more than once / not at all"
                for u in fn.urls:
                    if (network != "mainnet") != (("/" + network + "/") in u):
                        return "a prevout was requested from the endpoint of another network"
            return _cache_ok()
    finally:
        TxFetcher.cache.clear()


def ref_varint_w(n, w):
    """compact size of n in the given total width 1/3/5/9 (non-minimal when wider than needed)"""
    if w == 1:
        return struct.pack("<B", n)
    return {3: b"\xfd", 5: b"\xfe", 9: b"\xff"}[w] + n.to_bytes(w - 1, "little")


def ref_full_w(v, where, w):
    """ref_full(v) with ONE compact size written in width w: where = in_count | out_count | sig_len | spk_len |
    wit_count | wit_len (the first such field)"""
    ver, ins, outs, lt, sw = v

    def vi(n, tag, first):
        return ref_varint_w(n, w) if (tag == where and first) else ref_varint(n)

    def script(sc, tag, first):
        b = ref_cmds(sc[0])
        return vi(len(b), tag, first) + b

    out = struct.pack("<I", ver) + (b"\x00\x01" if sw else b"") + vi(len(ins), "in_count", True)
    for k, (pt, pi, sc, sq, _w) in enumerate(ins):
        out += pt[::-1] + struct.pack("<I", pi) + script(sc, "sig_len", k == 0) + struct.pack("<I", sq)
    out += vi(len(outs), "out_count", True)
    for k, (am, sc) in enumerate(outs):
        out += struct.pack("<Q", am) + script(sc, "spk_len", k == 0)
    if sw:
        for k, i in enumerate(ins):
            out += vi(len(i[4]), "wit_count", k == 0)
            for m, x in enumerate(i[4]):
                out += vi(len(x), "wit_len", k == 0 and m == 0) + x
    return out + struct.pack("<I", lt)


def p_nonminimal(v, where, w):
    """a transaction with one NON-minimal compact size (hand-built): whatever the parser makes of it, the object
    re-serialises canonically, so its id is the id of the canonical form - never the hash of the bytes received;
    the fetcher accepts it under the canonical id only"""
    raw = ref_full_w(v, where.decode(), w)
    canon = ref_full(v)
    tid = ref_txid(v)
    with contextlib.redirect_stdout(io.StringIO()):
        try:
            t = Tx.parse(BytesIO(raw + b"\x51"))
        except Exception:
            t = None
        if t is not None:
            if un_tx(t) != canon_tx(v):
                return "a non-minimal compact size is parsed into different fields than the encoded ones"
            if t.serialize() != canon or t.id() != tid:
                return "a transaction parsed from a non-minimal encoding does not re-serialise canonically"
    if t is None:
        return None
    r = p_fetch(raw.hex().encode(), tid.encode(), 1)
    if r:
        return "non-minimal response, canonical id: " + r
    stripped = ref_full_w([v[0], v[1], v[2], v[3], 0], where.decode(), w) if where not in (b"wit_count", b"wit_len") else None
    if stripped is not None and raw != canon:
        fake = _h256(stripped)[::-1].hex()
        r = p_fetch(raw.hex().encode(), fake.encode(), 0)
        if r:
            return "non-minimal response, id = hash of the bytes received: " + r
    return None


PROPS = {"script_canon": p_script_canon, "fetch_cross_network": p_fetch_cross_network, "script_rt": p_script_rt, "raw_fallback": p_raw_fallback, "witness_rt": p_witness_rt, "tx_rt": p_tx_rt, "zero_inputs": p_zero_inputs,
         "bytes_rt": p_bytes_rt, "txid": p_txid, "txid_inplace": p_txid_inplace, "fetch": p_fetch,
         "mid_stream": p_mid_stream, "tx_sequence": p_tx_sequence, "varint": p_varint, "varint_decode": p_varint_decode,
         "varstr": p_varstr, "api_forms": p_api_forms, "script_api": p_script_api, "fetch_network": p_fetch_network,
         "defaults_isolated": p_defaults_isolated, "finalize_forms": p_finalize_forms, "inplace_deep": p_inplace_deep,
         "entry_points": p_entry_points, "fetch_history": p_fetch_history, "cache_file": p_cache_file,
         "prevouts": p_prevouts, "nonminimal": p_nonminimal}


def classify(v):
    """K-C04-zeroin: legacy serialisation with zero inputs is not parseable (BIP144 marker ambiguity)"""
    if v["kind"] != "prop":
        return None
    a = v["args"]
    d = v.get("detail", "")
    # only the parse-back step of a correctly laid out legacy serialisation without inputs
    back = d.startswith(("parse(serialize(tx)) raised", "parse(serialize(tx)) differs", "parse(serialize(tx) + rest)",
                         "parse of a canonical encoding raised", "parse of a canonical encoding gives"))
    if not back:
        return None
    if v["name"] == "zero_inputs" and serializable([a[0], [], a[1], a[2], 0]):
        return "K-C04-zeroin"
    if v["name"] in ("tx_rt", "bytes_rt") and a[0][4] == 0 and a[0][1] == [] and serializable(a[0]):
        return "K-C04-zeroin"
    return None


# ---------------------------------------------------------------- generators

PUSH_EDGES = [0, 1, 2, 20, 32, 33, 74, 75, 76, 77, 254, 255, 256, 257, 519, 520]
WIT_LENS = [0, 1, 75, 76, 252, 253, 65535, 65536, 70000]
OPS_VALID = [0] + list(range(79, 256))


def r_cmds(ctx, r, n=None, big=False):
    n = r.randrange(0, 6) if n is None else n
    out = []
    for _ in range(n):
        k = r.random()
        if k < 0.45:
            out.append(r.choice(OPS_VALID))
        elif k < 0.8:
            out.append(ctx.rbytes(r.choice(PUSH_EDGES) if r.random() < 0.5 else r.randrange(0, 90)))
        else:
            out.append(ctx.rbytes(r.randrange(0, 521 if big else 80)))
    return out


def r_spk_cmds(ctx, r):
    k = r.randrange(8)
    if k == 0:
        return [0x76, 0xa9, ctx.rbytes(20), 0x88, 0xac]
    if k == 1:
        return [0xa9, ctx.rbytes(20), 0x87]
    if k == 2:
        return [0, ctx.rbytes(20)]
    if k == 3:
        return [0, ctx.rbytes(32)]
    if k == 4:
        return [0x51, ctx.rbytes(32)]
    if k == 5:   # near misses of the patterns
        return r.choice([[0x76, 0xa9, ctx.rbytes(21), 0x88, 0xac], [0xa9, ctx.rbytes(19), 0x87], [b"", ctx.rbytes(20)],
                         [0x52, ctx.rbytes(32)], [0, ctx.rbytes(33)], [0x51, ctx.rbytes(20)], [0x6a, ctx.rbytes(40)]])
    return r_cmds(ctx, r)


def r_u32(r):
    return r.choice([0, 1, 2, 0xfffffffe, 0xffffffff, 0x80000000, 500000000, r.getrandbits(32), r.getrandbits(8)])


def r_amount(r):
    return r.choice([0, 1, 546, 21 * 10 ** 14, U32 - 1, U32, 2 ** 63, U64 - 2, U64 - 1, r.getrandbits(64), r.getrandbits(40)])


def r_witness(ctx, r, heavy=False):
    n = r.choice([0, 1, 2, 3, 4])
    lens = [0, 1, 32, 33, 64, 65, 71, 72, 73, 75, 76, 252, 253]
    return [ctx.rbytes(r.choice(lens) if r.random() < 0.6 else r.randrange(0, 120)) for _ in range(n)]


def r_txin(ctx, r, segwit):
    return [ctx.rbytes(32), r_u32(r), [r_cmds(ctx, r), []], r_u32(r), r_witness(ctx, r) if segwit else []]


def r_txout(ctx, r):
    return [r_amount(r), [r_spk_cmds(ctx, r), []]]


def r_tx(ctx, r, nin=None, nout=None, segwit=None):
    segwit = r.randrange(2) if segwit is None else segwit
    nin = r.choice([1, 1, 2, 3]) if nin is None else nin
    nout = r.choice([0, 1, 1, 2, 3]) if nout is None else nout
    return [r.choice([1, 2, 0, 0xffffffff, r.getrandbits(32)]), [r_txin(ctx, r, segwit) for _ in range(nin)],
            [r_txout(ctx, r) for _ in range(nout)], r_u32(r), segwit]


def small_in(ctx, r, segwit, wit=None):
    return [ctx.rbytes(32), r.getrandbits(8), [[], []], 0xffffffff, ([] if wit is None else wit) if segwit else []]


def tx_cases(v, ctx, r, rest=True):
    """the standard bundle for one transaction value"""
    tail = ctx.rbytes(r.randrange(0, 4)) if rest else b""
    yield ("prop", "tx_rt", [v, tail])
    yield ("prop", "bytes_rt", [v])
    yield ("corr", "tx_serialize", [v])
    yield ("corr", "tx_roundtrip", [v, tail])
    yield ("corr", "tx_hash", [v])


def mutate_nonwitness(ctx, r, v):
    """returns (label, v2) with exactly one non-witness field changed"""
    ver, ins, outs, lt, sw = v
    ins = [list(i) for i in ins]
    outs = [list(o) for o in outs]
    kinds = ["version", "locktime", "add_in", "add_out"]
    if ins:
        kinds += ["prev_tx", "prev_index", "sequence", "script_sig", "del_in", "swap_in"]
    if outs:
        kinds += ["amount", "script_pubkey", "del_out"]
    k = r.choice(kinds)
    if k == "version":
        ver ^= 1 << r.randrange(32)
    elif k == "locktime":
        lt ^= 1 << r.randrange(32)
    elif k == "add_in":
        ins.insert(r.randrange(len(ins) + 1), small_in(ctx, r, sw))
    elif k == "add_out":
        outs.insert(r.randrange(len(outs) + 1), [r.getrandbits(30), [[0x51], []]])
    elif k == "del_in":
        del ins[r.randrange(len(ins))]
    elif k == "del_out":
        del outs[r.randrange(len(outs))]
    elif k == "swap_in":
        j = r.randrange(len(ins))
        ins[j][0] = ins[j][0][::-1] if ins[j][0] != ins[j][0][::-1] else bytes(32 - 1) + b"\x01"
    elif k == "amount":
        j = r.randrange(len(outs))
        outs[j][0] ^= 1 << r.randrange(64)
    else:
        if k == "script_pubkey":
            j = r.randrange(len(outs))
            tgt, pos = outs[j], 1
        else:
            j = r.randrange(len(ins))
            tgt, pos = ins[j], {"prev_tx": 0, "prev_index": 1, "sequence": 3, "script_sig": 2}[k]
        if k in ("prev_index", "sequence"):
            tgt[pos] ^= 1 << r.randrange(32)
        elif k == "prev_tx":
            b = bytearray(tgt[pos])
            b[r.randrange(32)] ^= 1 << r.randrange(8)
            tgt[pos] = bytes(b)
        else:
            cmds = list(tgt[pos][0])
            c = r.randrange(4)
            if c == 0 or not cmds:
                cmds.insert(r.randrange(len(cmds) + 1), r.choice([0x51, 0xac, ctx.rbytes(3)]))
            elif c == 1:
                del cmds[r.randrange(len(cmds))]
            else:
                p = r.randrange(len(cmds))
                if isinstance(cmds[p], int):
                    cmds[p] = 79 + ((cmds[p] - 79 + 1 + r.randrange(170)) % 177) if cmds[p] >= 79 else 0x51
                elif len(cmds[p]) == 0:
                    cmds[p] = b"\x00"
                else:
                    b = bytearray(cmds[p])
                    b[r.randrange(len(b))] ^= 1 << r.randrange(8)
                    cmds[p] = bytes(b)
            tgt[pos] = [cmds, []]
    return k, [ver, ins, outs, lt, sw]


def mutate_witness(ctx, r, v):
    ver, ins, outs, lt, sw = v
    ins = [list(i) for i in ins]
    k = r.choice(["flag", "items", "items", "clear"])
    if k == "flag":
        sw = 1 - sw
    elif k == "clear":
        for i in ins:
            i[4] = []
    else:
        for i in ins:
            i[4] = r_witness(ctx, r)
        sw = 1
    return k, [ver, ins, outs, lt, sw]


def generate(ctx):
    r = ctx.rng
    # ------------------------------------------------------------ scripts: every push length 0..521
    for ln in range(0, 522):
        d = ctx.rbytes(ln)
        cmds = [d] if ln % 3 else [r.choice(OPS_VALID), d, r.choice(OPS_VALID)]
        ctx.label("push/" + ("0" if ln == 0 else "1..75" if ln <= 75 else "76..255" if ln <= 255 else
                             "256..520" if ln <= 520 else ">520"))
        yield ("prop", "script_rt", [cmds])
        yield ("corr", "raw_serialize", [[cmds, []]])
        yield ("corr", "serialize_script", [[cmds, []]])
        if ln <= 520:
            raw = ref_cmds(cmds)
            yield ("corr", "parse_raw", [raw])
            yield ("corr", "parse_script", [ref_varint(len(raw)) + raw + ctx.rbytes(ln % 3)])
    for ln in (521, 522, 600, 65535, 65536, 70000):
        yield ("prop", "script_rt", [[ctx.rbytes(ln)]])
        yield ("corr", "raw_serialize", [[[ctx.rbytes(ln)], []]])
    # every opcode value as an int command, and out-of-range ones
    for o in list(range(0, 256)) + [-1, -2, 256, 257, 1000, 2 ** 32]:
        ctx.label("opcode/valid" if (o == 0 or 79 <= o <= 255) else "opcode/push-prefix" if 1 <= o <= 78 else "opcode/out-of-range")
        yield ("prop", "script_rt", [[o]])
        yield ("corr", "raw_serialize", [[[o, b"ab"], []]])
        if 0 <= o < 256:
            yield ("corr", "parse_raw", [bytes([o])])
            yield ("corr", "parse_raw", [bytes([o]) + ctx.rbytes(r.randrange(0, 80))])
    # random scripts
    for _ in range(ctx.n(1500, 20000)):
        cmds = r_cmds(ctx, r, big=True)
        yield ("prop", "script_rt", [cmds])
        yield ("corr", "serialize_script", [[cmds, []]])
        if cmds_serializable(cmds):
            raw = ref_cmds(cmds)
            yield ("corr", "parse_raw", [raw])
            # raw fallback / truncation / corruption of a valid script
            if raw:
                cut = raw[: r.randrange(0, len(raw))]
                yield ("corr", "parse_raw", [cut])
                yield ("prop", "raw_fallback", [cut])
                b = bytearray(raw)
                b[r.randrange(len(b))] = r.choice([0, 1, 75, 76, 77, 78, 79, 255, r.getrandbits(8)])
                yield ("corr", "parse_raw", [bytes(b)])
                yield ("corr", "parse_script", [ref_varint(len(raw)) + cut])
                yield ("corr", "parse_script_pubkey", [ref_varint(len(raw) + 3) + raw])
    # long scripts: 3- and 5-byte compact size of the script length
    for total in (252, 253, 254, 65535, 65536, 66000):
        cmds = []
        left = total
        while left > 0:
            k = min(left, 523)
            if k >= 259:
                cmds.append(ctx.rbytes(min(k - 3, 520)))
                left -= min(k - 3, 520) + 3
            elif k >= 78:
                cmds.append(0xac)
                left -= 1
            elif k >= 2:
                cmds.append(ctx.rbytes(k - 1))
                left -= k
            else:
                cmds.append(0x51)
                left -= 1
        ctx.label("script-length/" + ("1-byte" if total < 253 else "3-byte" if total < 65536 else "5-byte"))
        yield ("prop", "script_rt", [cmds])
        yield ("corr", "serialize_script", [[cmds, []]])
        yield ("corr", "parse_script", [ref_script([cmds])])
    # explicit pushdata forms: non-minimal, zero-length, short reads (raw fallback)
    for op, w in ((76, 1), (77, 2), (78, 4)):
        for dl in (0, 1, 10, 75, 76, 255, 256, 520, 521, 70000):
            if dl >= 256 ** w:
                continue
            enc = bytes([op]) + dl.to_bytes(w, "little")
            for have in sorted({dl, max(0, dl - 1), 0, dl // 2}):
                raw = enc + ctx.rbytes(have)
                ctx.label("pushdata/exact" if have == dl else "pushdata/short-read")
                yield ("corr", "parse_raw", [raw])
                yield ("prop", "raw_fallback", [raw])
                yield ("corr", "parse_script", [ref_varint(len(raw)) + raw + b"\x01"])
                yield ("corr", "parse_script_pubkey", [ref_varint(len(raw) + 1) + b"\x00" + raw])
        for cutw in range(w):
            yield ("corr", "parse_raw", [bytes([op]) + bytes([1] * cutw)])
    for n in range(1, 76):
        yield ("corr", "parse_raw", [bytes([n]) + ctx.rbytes(n - 1)])
        yield ("corr", "parse_raw", [bytes([n]) + ctx.rbytes(n)])
    # declared lengths around sys.maxsize: BytesIO.read(n) raises OverflowError for n >= 2^63
    for n in (2 ** 63 - 1, 2 ** 63, 2 ** 63 + 1, 2 ** 64 - 1, 2 ** 32, 2 ** 32 - 1):
        pre = ref_varint(n)
        ctx.label("length>=2^63" if n >= 2 ** 63 else "length<2^63")
        yield ("corr", "parse_script", [pre + b"\x51\x52"])
        yield ("corr", "parse_script_pubkey", [pre + b"\x00\x14" + bytes(20)])
        yield ("corr", "witness_parse", [b"\x02\x01\xaa" + pre + b"\x01\x02\x03"])
        yield ("corr", "witness_parse", [pre + b"\x01\x02\x03"])
        yield ("corr", "txin_parse", [bytes(36) + pre + bytes(10)])
        yield ("corr", "txout_parse", [bytes(8) + pre + bytes(10)])
        yield ("corr", "tx_parse", [b"\x01\x00\x00\x00\x01" + bytes(36) + pre + bytes(10)])
        yield ("corr", "tx_parse", [b"\x01\x00\x00\x00\x00\x01\x01" + bytes(36) + b"\x00" + bytes(4) + b"\x00\x01" + pre + bytes(4)])
        yield ("corr", "tx_parse", [b"\x01\x00\x00\x00" + pre + bytes(50)])
    # scripts carrying .raw (what the parser produces on a length mismatch) through the serialiser
    for raw in (b"", b"\x05ab", b"\x4c\xffxyz", ctx.rbytes(30)):
        for cmds in ([], [0x51], [b"ab"], [ctx.rbytes(600)], [300]):
            yield ("corr", "raw_serialize", [[cmds, [raw]]])
            yield ("corr", "serialize_script", [[cmds, [raw]]])
    # scriptPubKey patterns: exact, near misses, non-minimal encodings of the pattern, with .raw
    for _ in range(ctx.n(400, 5000)):
        cmds = r_spk_cmds(ctx, r)
        raw = ref_cmds(cmds)
        yield ("corr", "parse_script_pubkey", [ref_varint(len(raw)) + raw + ctx.rbytes(2)])
        yield ("corr", "txout_parse", [struct.pack("<Q", r_amount(r) % U64) + ref_varint(len(raw)) + raw])
    for h in (20, 32):
        for pre in (b"\x00", b"\x51"):
            body = ctx.rbytes(h)
            for enc in (bytes([h]) + body, b"\x4c" + bytes([h]) + body, b"\x4d" + bytes([h, 0]) + body,
                        b"\x4c" + bytes([h + 9]) + body, bytes([h + 1]) + body):
                raw = pre + enc
                ctx.label("spk/nonminimal-or-short-pattern")
                yield ("corr", "parse_script_pubkey", [ref_varint(len(raw)) + raw])
                yield ("corr", "txout_parse", [bytes(8) + ref_varint(len(raw)) + raw + b"\xff"])
    # ------------------------------------------------------------ witness
    for ln in WIT_LENS:
        items = [ctx.rbytes(ln)] if ln % 2 else [b"\x01", ctx.rbytes(ln), b""]
        ctx.label(f"witness-item/{ln}")
        yield ("prop", "witness_rt", [items, ctx.rbytes(2)])
        yield ("corr", "witness_serialize", [items])
        yield ("corr", "witness_parse", [ref_witness(items) + b"\x07"])
    # (the extracted model is quadratic in the item count — readz measures the remaining stream each time —
    #  so the 5-byte count width is exercised in the thorough tier only)
    for cnt in (0, 1, 2, 252, 253, 300, 2000) + ((65535, 65536) if ctx.tier == "thorough" else ()):
        items = [bytes([i % 256]) * (i % 3) for i in range(cnt)]
        ctx.label("witness-count/" + ("1-byte" if cnt < 253 else "3-byte" if cnt < 65536 else "5-byte"))
        yield ("prop", "witness_rt", [items, b""])
        yield ("corr", "witness_serialize", [items])
        yield ("corr", "witness_parse", [ref_witness(items)])
    for _ in range(ctx.n(400, 8000)):
        items = r_witness(ctx, r)
        raw = ref_witness(items)
        yield ("prop", "witness_rt", [items, ctx.rbytes(r.randrange(3))])
        yield ("corr", "witness_parse", [raw[: r.randrange(0, len(raw) + 1)]])
        yield ("corr", "witness_parse", [ctx.rbytes(r.randrange(0, 12))])
    for raw in (b"", b"\xff" + b"\xff" * 8, b"\xfe\xff\xff\xff\xff" + bytes(40), b"\xfd\x03\x00\x00\x00", b"\x02\xfd\xff\xff" + bytes(10)):
        yield ("corr", "witness_parse", [raw])
    # ------------------------------------------------------------ txin / txout
    for _ in range(ctx.n(600, 10000)):
        i = r_txin(ctx, r, r.randrange(2))
        if r.random() < 0.15:
            i[r.choice([1, 3])] = r.choice([-1, U32, U32 + 5, -U32])
        if r.random() < 0.1:
            i[0] = ctx.rbytes(r.choice([0, 1, 31, 33, 64]))
        yield ("corr", "txin_serialize", [i])
        try:    # independent encoder: a defect of the library's serialiser must not stop or thin out the parse cases
            raw = ref_txin(i)
        except (struct.error, ValueError):
            raw = ctx.rbytes(50)
        yield ("corr", "txin_parse", [raw + ctx.rbytes(r.randrange(3))])
        yield ("corr", "txin_parse", [raw[: r.randrange(0, len(raw) + 1)]])
        o = r_txout(ctx, r)
        if r.random() < 0.15:
            o[0] = r.choice([-1, U64, U64 + 1])
        yield ("corr", "txout_serialize", [o])
        try:
            raw = ref_txout(o)
        except (struct.error, ValueError):
            raw = ctx.rbytes(20)
        yield ("corr", "txout_parse", [raw + ctx.rbytes(r.randrange(3))])
        yield ("corr", "txout_parse", [raw[: r.randrange(0, len(raw) + 1)]])
    # ------------------------------------------------------------ transactions built through the API
    samples = []
    for k in range(ctx.n(800, 12000)):
        v = r_tx(ctx, r)
        samples.append(v)
        ctx.label("tx/segwit" if v[4] else "tx/legacy")
        yield from tx_cases(v, ctx, r)
        if k % 4 == 0:
            yield ("corr", "serialize_legacy", [v])
            yield ("corr", "serialize_segwit", [v])
            yield ("corr", "tx_id", [v])
            yield ("corr", "tx_parse", [ref_full(v) + ctx.rbytes(r.randrange(3))])
    # one push of every length 0..521 inside a transaction (scriptSig and scriptPubKey alternately)
    for ln in range(0, 522):
        d = ctx.rbytes(ln)
        sw = ln % 2
        i = [ctx.rbytes(32), ln, [[d] if ln % 4 < 2 else [], []], 0xfffffffd, [ctx.rbytes(ln % 7)] if sw else []]
        o = [ln * 1000, [[0x6a, d] if ln % 4 >= 2 else [0x51], []]]
        v = [2, [i], [o], ln, sw]
        ctx.label("tx/push-length-sweep")
        yield ("prop", "tx_rt", [v, b""])
        yield ("prop", "bytes_rt", [v])
        yield ("corr", "tx_roundtrip", [v, b""])
    # input / output counts across the 0xfd boundary
    for nin, nout in ((252, 1), (253, 1), (254, 2), (1, 252), (1, 253), (2, 300), (300, 300), (255, 0), (256, 256)):
        for sw in (0, 1):
            v = [1, [small_in(ctx, r, sw, [bytes([j % 256])] if j % 5 == 0 else []) for j in range(nin)],
                 [[j, [[0x51] if j % 2 else [0, bytes(20)], []]] for j in range(nout)], 0, sw]
            ctx.label("tx/count>=253")
            yield from tx_cases(v, ctx, r)
    for nin in range(0, 4):
        for nout in range(0, 4):
            for sw in (0, 1):
                v = r_tx(ctx, r, nin, nout, sw)
                ctx.label(f"tx/ins={nin},segwit={sw}")
                yield from tx_cases(v, ctx, r)
    # K-C04-zeroin: the dedicated predicate
    for nout in (0, 1, 2, 3, 253):
        yield ("prop", "zero_inputs", [1, [[5, [[0x51], []]]] * nout, 0])
        yield ("corr", "tx_roundtrip", [[1, [], [[5, [[0x51], []]]] * nout, 0, 0], b""])
    # witness stacks with the boundary item lengths / item counts inside a segwit transaction
    for ln in WIT_LENS:
        v = [2, [small_in(ctx, r, 1, [ctx.rbytes(ln), b"", ctx.rbytes(1)]), small_in(ctx, r, 1, [])],
             [[1, [[0, bytes(32)], []]]], 0, 1]
        ctx.label(f"tx/witness-item/{ln}")
        yield from tx_cases(v, ctx, r, rest=False)
    for cnt in (252, 253, 300):
        v = [2, [small_in(ctx, r, 1, [bytes([j % 256]) for j in range(cnt)])], [[1, [[0x51], []]]], 0, 1]
        ctx.label("tx/witness-count>=252")
        yield from tx_cases(v, ctx, r, rest=False)
    # long scriptSig / scriptPubKey: 3- and 5-byte compact size inside a transaction
    for npush in (1, 2, 127):
        cm = [ctx.rbytes(520) for _ in range(npush)]
        v = [1, [[ctx.rbytes(32), 0, [cm, []], 0, []]], [[U64 - 1, [cm[:2], []]]], 0xffffffff, 0]
        ctx.label("tx/script-length-" + ("5-byte" if npush == 127 else "3-byte"))
        yield from tx_cases(v, ctx, r, rest=False)
    # out-of-range fields (construction or serialisation must raise on both sides)
    for fld in range(8):
        for bad in (-1, U32, U64, -U64):
            v = r_tx(ctx, r, 1, 1)
            if fld == 0:
                v[0] = bad
            elif fld == 1:
                v[3] = bad
            elif fld == 2:
                v[1][0][1] = bad
            elif fld == 3:
                v[1][0][3] = bad
            elif fld == 4:
                v[2][0][0] = bad if bad != U32 else U64 + 7
            elif fld == 5:
                v[1][0][2] = [[ctx.rbytes(521)], []]
            elif fld == 6:
                v[2][0][1] = [[256 if bad > 0 else -1], []]
            else:
                v[1][0][0] = ctx.rbytes(r.choice([0, 31, 33]))
            ctx.label("tx/out-of-range-field")
            yield ("prop", "tx_rt", [v, b""])
            yield ("corr", "tx_build", [v])
            yield ("corr", "tx_serialize", [v])
            yield ("corr", "tx_hash", [v])
    # legacy transaction object carrying witness items (ignored by serialize), commands 1..78 as ints,
    # scripts with .raw inside transactions: correspondence only
    for _ in range(ctx.n(200, 3000)):
        v = r_tx(ctx, r, segwit=0)
        for i in v[1]:
            i[4] = r_witness(ctx, r)
            if r.random() < 0.3:
                i[2] = [r_cmds(ctx, r) + [r.randrange(1, 79)], []]
            if r.random() < 0.2:
                i[2] = [r_cmds(ctx, r), [ctx.rbytes(r.randrange(0, 9))]]
        yield ("corr", "tx_serialize", [v])
        yield ("corr", "tx_roundtrip", [v, b""])
        yield ("corr", "tx_hash", [v])
    # ------------------------------------------------------------ txid
    for k in range(ctx.n(1000, 20000)):
        v = samples[k % len(samples)] if k % 2 else r_tx(ctx, r)
        if not serializable(v):
            continue
        kind, v2 = mutate_nonwitness(ctx, r, v)
        if serializable(v2):
            ctx.label("txid/nonwitness-edit/" + kind)
            yield ("prop", "txid", [v, v2])
            yield ("prop", "txid_inplace", [v, v2])
            yield ("corr", "tx_id", [v2])
        kind, v3 = mutate_witness(ctx, r, v)
        ctx.label("txid/witness-edit/" + kind)
        yield ("prop", "txid", [v, v3])
        yield ("prop", "txid_inplace", [v, v3])
        yield ("corr", "tx_hash", [v3])
    # ------------------------------------------------------------ malformed stream
    mal = [s for s in samples if serializable(s) and len(ref_full(s)) < 400]
    mal = sorted(mal, key=lambda s: (s[4], len(s[1])))[:: max(1, len(mal) // ctx.n(12, 80))][: ctx.n(12, 80)]
    mal += [[1, [small_in(ctx, r, 1, [b"\x01\x02"])], [[7, [[0, bytes(20)], []]]], 0, 1],
            [1, [[bytes(32), 0, [[ctx.rbytes(80)], []], 5, []]], [[7, [[0x76, 0xa9, bytes(20), 0x88, 0xac], []]]], 9, 0]]
    for v in mal:
        raw = ref_full(v)
        for pos in range(len(raw) + 1):
            ctx.label("malformed/truncated")
            yield ("corr", "tx_parse", [raw[:pos]])
        for pos in range(len(raw)):
            b = bytearray(raw)
            b[pos] ^= r.choice([1, 2, 4, 8, 16, 32, 64, 128, 255, r.randrange(1, 256)])
            ctx.label("malformed/byte-flip")
            yield ("corr", "tx_parse", [bytes(b)])
            if pos % 7 == 0:
                b[pos] = r.choice([0, 0xfd, 0xfe, 0xff, 0x4c, 0x4d, 0x4e])
                yield ("corr", "tx_parse", [bytes(b)])
    for n in range(0, 12):
        yield ("corr", "tx_parse", [bytes(n)])
        yield ("corr", "tx_parse", [b"\x01" * n])
        yield ("corr", "tx_parse", [b"\x01\x00\x00\x00\x00\x01"[:n]])
    for _ in range(ctx.n(1500, 30000)):
        raw = ctx.rbytes(r.randrange(0, 80))
        if r.random() < 0.5 and len(raw) > 6:
            raw = raw[:4] + r.choice([b"\x00\x01", b"\x00\x00", b"\x01", b"\x02"]) + raw[6:]
        ctx.label("malformed/random")
        yield ("corr", "tx_parse", [raw])
    # huge declared counts on tiny streams must fail quickly on both sides
    for cnt in (b"\xff" + b"\xff" * 8, b"\xfe\xff\xff\xff\x7f", b"\xfd\xff\xff"):
        yield ("corr", "tx_parse", [b"\x01\x00\x00\x00" + cnt + bytes(50)])
        yield ("corr", "tx_parse", [b"\x01\x00\x00\x00\x00\x01\x00\x00" + cnt])
        yield ("corr", "tx_parse", [b"\x01\x00\x00\x00\x00\x01\x01" + bytes(36) + b"\x00" + bytes(4) + b"\x00" + cnt + bytes(9)])
    # ------------------------------------------------------------ fetcher
    def hexresp(raw):
        return raw.hex().encode()

    good = [s for s in samples if wf(s) and (s[4] or s[1])]
    for k in range(ctx.n(300, 4000)):
        v = good[k % len(good)]
        w = good[(k * 7 + 3) % len(good)]
        raw, tid = ref_full(v), ref_txid(v).encode()
        ctx.label("fetch/honest")
        yield ("prop", "fetch", [hexresp(raw), tid, 1])
        yield ("corr", "fetch_text", [hexresp(raw), tid])
        yield ("corr", "fetch_check", [raw, bytes.fromhex(ref_txid(v))])
        # honest bytes + trailing garbage, id of the transaction / id = hash of the whole response
        tr = raw + ctx.rbytes(r.randrange(1, 5))
        whole = hashlib.sha256(hashlib.sha256(tr).digest()).digest()[::-1].hex().encode()
        ctx.label("fetch/trailing-bytes")
        yield ("prop", "fetch", [hexresp(tr), tid, 1])
        yield ("prop", "fetch", [hexresp(tr), whole, 0])
        yield ("corr", "fetch_text", [hexresp(tr), whole])
        # another transaction / a mutated one under the requested id
        ctx.label("fetch/other-tx")
        if ref_txid(w) != ref_txid(v):
            yield ("prop", "fetch", [hexresp(ref_full(w)), tid, 0])
            yield ("corr", "fetch_text", [hexresp(ref_full(w)), tid])
        _, v2 = mutate_nonwitness(ctx, r, v)
        if serializable(v2) and ref_legacy(v2) != ref_legacy(v):
            raw2 = ref_full(v2)
            yield ("prop", "fetch", [hexresp(raw2), tid, 0])
            yield ("prop", "fetch", [hexresp(raw2), hashlib.sha256(hashlib.sha256(raw2).digest()).digest()[::-1].hex().encode(), 0])
        # witness-malleated response is still the requested transaction
        _, v3 = mutate_witness(ctx, r, v)
        if v3[4] or v3[1]:
            ctx.label("fetch/witness-malleated")
            yield ("prop", "fetch", [hexresp(ref_full(v3)), tid, 1])
        # upper-case hex, whitespace, upper-case id, garbage
        ctx.label("fetch/text-forms")
        yield ("corr", "fetch_text", [b" \n" + raw.hex().upper().encode() + b"\r\n", tid])
        yield ("corr", "fetch_text", [b" ".join(bytes([c, d]) for c, d in zip(raw.hex().encode()[::2], raw.hex().encode()[1::2])), tid])
        yield ("corr", "fetch_text", [hexresp(raw), tid.upper()])
        yield ("corr", "fetch_text", [hexresp(raw)[:-1], tid])
        yield ("corr", "fetch_text", [hexresp(raw), tid[:-1]])
        yield ("prop", "fetch", [hexresp(raw), tid.upper(), 0])
        yield ("prop", "fetch", [ctx.rbytes(r.randrange(0, 60)), tid, 0])
        yield ("prop", "fetch", [hexresp(ctx.rbytes(r.randrange(0, 100))), tid, 0])
        if k % 5 == 0:
            ops = []
            for _ in range(r.randrange(2, 7)):
                a = r.choice([v, w])
                b = r.choice([v, w, v2 if serializable(v2) else w])
                resp = hexresp(ref_full(b)) if r.random() < 0.8 else b"zz"
                ops.append([r.randrange(2), resp, ref_txid(a).encode()])
            ctx.label("fetch/cache-sequence")
            yield ("corr", "fetch_run", [ops])
    # legacy transaction whose scriptSig uses OP_PUSHDATA1 for a 10-byte push (non-minimal): the parsed
    # object re-serialises minimally, so its id differs from the hash of the response
    for ln, form in ((10, b"\x4c\x0a"), (75, b"\x4c\x4b"), (200, b"\x4d\xc8\x00"), (3, b"\x4e\x03\x00\x00\x00")):
        data = ctx.rbytes(ln)
        body = form + data
        prev = ctx.rbytes(32)
        raw = struct.pack("<I", 1) + b"\x01" + prev[::-1] + struct.pack("<I", 0) + ref_varint(len(body)) + body + \
            b"\xff\xff\xff\xff" + b"\x01" + struct.pack("<Q", 5000) + b"\x01\x51" + struct.pack("<I", 0)
        hid = hashlib.sha256(hashlib.sha256(raw).digest()).digest()[::-1].hex().encode()
        ctx.label("fetch/non-minimal-push")
        yield ("prop", "fetch", [hexresp(raw), hid, 0])
        yield ("corr", "fetch_text", [hexresp(raw), hid])
        yield ("corr", "tx_parse", [raw])
        # the id of the parsed object: the same transaction with the push encoded minimally
        tid = ref_txid([1, [[prev, 0, [[data], []], 0xffffffff, []]], [[5000, [[0x51], []]]], 0, 0]).encode()
        yield ("prop", "fetch", [hexresp(raw), tid, 1])
        yield ("corr", "fetch_text", [hexresp(raw), tid])
    # text layer: utf-8 / strip / fromhex
    texts = [b"", b" ", b"00", b"0", b"0g", b"G0", b"00 11", b"0 0", b"\t00\x0b11\x0c22\r\n", b"\x1c00\x1f", b"00\x1c11",
             b"\xc2\xa000\xc2\x85", b"\xe2\x80\x8300", b"\xe3\x80\x8000\xe1\x9a\x80", b"00\xc2\xa011", b"\xff00", b"\xc0\x80",
             b"\xed\xa0\x80", b"\xf0\x9f\x98\x80", b"\xf4\x90\x80\x80", b"\xe2\x80", b"00\x00", b"aAbBcCdDeEfF", b"\xef\xbb\xbf00",
             b"\xe2\x80\x8b00", b"0\xc2\xa00"]
    for t in texts:
        ctx.label("fetch/text-layer")
        yield ("corr", "fromhex", [t])
    for _ in range(ctx.n(800, 10000)):
        alphabet = b"0123456789abcdefABCDEF \t\n\r\x0b\x0c\x1c\x1fgx\x00\xc2\xa0\x85\xe2\x80\x83"
        t = bytes(r.choice(alphabet) for _ in range(r.randrange(0, 14)))
        yield ("corr", "fromhex", [t])
        yield ("corr", "hexlify", [ctx.rbytes(r.randrange(0, 9))])
    yield ("corr", "hexlify", [bytes(range(256))])
    # ------------------------------------------------------------ objects in the MIDDLE of a stream
    # (bytes before and after the object; the parse starts at the object's first byte, must return the encoded
    #  fields and leave the position right behind the object).  Prefixes: every length 0..7 (both sides of the
    #  5-byte step back of Tx.parse), long ones, prefixes that are themselves a transaction / end in 00 / 00 01.
    def prefixes():
        for n in (0, 1, 2, 3, 4, 5, 6, 7, 36, 300):
            yield ctx.rbytes(n)
        yield b"\x00"
        yield b"\x00\x01"
        yield b"\x01\x00\x00\x00\x00"
        yield b"\xff" * 9
        yield ref_full(r_tx(ctx, r, r.choice([1, 2]), 1))

    def posts():
        return r.choice([b"", b"", b"\x00", b"\x01", ctx.rbytes(r.randrange(1, 9)), b"\x00\x01" + ctx.rbytes(4)])

    mids = [s for s in samples if wf(s) and (s[4] or s[1])]
    base = [[1, [small_in(ctx, r, 0)], [[5, [[0x51], []]]], 0, 0],                              # smallest legacy
            [2, [small_in(ctx, r, 1, [b"\x01"])], [[5, [[0, bytes(20)], []]]], 0, 1],            # smallest segwit
            [2, [], [], 0, 1],                                                                   # 10-byte segwit, no inputs
            [0, [small_in(ctx, r, 0)], [], 0, 0],                                                # version 0 (00 00 00 00 01)
            [0x01000000, [small_in(ctx, r, 1)], [], 0xffffffff, 1],
            [1, [small_in(ctx, r, 0) for _ in range(253)], [[1, [[0x51], []]]], 7, 0],           # 3-byte input count
            [1, [small_in(ctx, r, 1, [ctx.rbytes(253)]) for _ in range(2)], [[1, [[ctx.rbytes(76)], []]] for _ in range(253)], 7, 1]]
    for v in base:
        for pre in prefixes():
            ctx.label(f"mid-stream/tx/prefix={min(len(pre), 8)}{'+' if len(pre) >= 8 else ''}")
            yield ("prop", "mid_stream", [b"tx", pre, v, posts()])
    for k in range(ctx.n(300, 4000)):
        v = mids[k % len(mids)] if k % 3 else r_tx(ctx, r, r.choice([1, 2, 3]))
        pre = ctx.rbytes(r.choice([0, 1, 2, 3, 4, 5, 6, 7, 8, 41, 100]))
        ctx.label("mid-stream/tx/" + ("segwit" if v[4] else "legacy") + ("@0" if not pre else "@>0"))
        yield ("prop", "mid_stream", [b"tx", pre, v, posts()])
        if k % 10 == 0:
            seq = [mids[(k + 7 * j) % len(mids)] for j in range(r.randrange(2, 5))]
            ctx.label("mid-stream/tx-sequence")
            yield ("prop", "tx_sequence", [pre, seq, posts()])
    for k in range(ctx.n(150, 2500)):
        pre = ctx.rbytes(r.choice([0, 1, 2, 5, 6, 9, 33]))
        ctx.label("mid-stream/parts")
        yield ("prop", "mid_stream", [b"txin", pre, r_txin(ctx, r, 0), posts()])
        yield ("prop", "mid_stream", [b"txout", pre, r_txout(ctx, r), posts()])
        yield ("prop", "mid_stream", [b"script", pre, r_cmds(ctx, r, big=(k % 5 == 0)), posts()])
        yield ("prop", "mid_stream", [b"script", pre, r_spk_cmds(ctx, r), posts()])
        yield ("prop", "mid_stream", [b"witness", pre, r_witness(ctx, r), posts()])
        yield ("prop", "mid_stream", [b"u32", pre, r_u32(r), posts()])
        yield ("prop", "varstr", [ctx.rbytes(r.choice([0, 1, 2, 252, 253, 254, r.randrange(0, 600)])), pre, posts()])
    for ln in (0, 1, 75, 76, 252, 253, 255, 256, 520):
        yield ("prop", "mid_stream", [b"script", ctx.rbytes(3), [ctx.rbytes(ln)], ctx.rbytes(2)])
        yield ("prop", "mid_stream", [b"witness", ctx.rbytes(3), [ctx.rbytes(ln), b""], ctx.rbytes(2)])
    for ln in (0xfc, 0xfd, 0xffff, 0x10000, 70000):
        yield ("prop", "mid_stream", [b"varstr", ctx.rbytes(5), ctx.rbytes(ln), b"\xfd"])
        yield ("prop", "mid_stream", [b"witness", ctx.rbytes(5), [ctx.rbytes(ln)], b"\xfd"])
        yield ("prop", "varstr", [ctx.rbytes(ln), ctx.rbytes(2), b"\x00"])
    # compact sizes: both sides of every width boundary, all four widths incl. the 9-byte one, out of range
    VI_EDGES = [0, 1, 2, 0xfb, 0xfc, 0xfd, 0xfe, 0xff, 0x100, 0x101, 0xfffe, 0xffff, 0x10000, 0x10001, 0xfffffffe,
                0xffffffff, 0x100000000, 0x100000001, 2 ** 63 - 1, 2 ** 63, U64 - 2, U64 - 1]
    for n in VI_EDGES + [r.getrandbits(r.choice([7, 8, 15, 16, 17, 31, 32, 33, 63, 64])) for _ in range(ctx.n(200, 3000))]:
        ctx.label("varint/width-%d" % len(ref_varint(n)))
        yield ("prop", "varint", [n, ctx.rbytes(r.randrange(0, 4)), posts()])
        yield ("prop", "mid_stream", [b"varint", ctx.rbytes(r.randrange(0, 7)), n, posts()])
    for n in (U64, U64 + 1, 2 ** 65, 2 ** 72 - 1, 2 ** 200, -1, -2, -0xfd, -256, -U64):
        ctx.label("varint/out-of-range")
        yield ("prop", "varint", [n, b"", b""])
    for first in range(256):     # every first byte, complete (possibly non-minimal) encodings
        for tail in (bytes(8), b"\xff" * 8, ctx.rbytes(8), b"\x05" + bytes(7)):
            yield ("prop", "varint_decode", [bytes([first]) + tail, ctx.rbytes(first % 3)])
    # ------------------------------------------------------------ the other entry points of the same codec
    for k in range(ctx.n(150, 2000)):
        v = mids[(k * 5 + 1) % len(mids)] if k % 2 else r_tx(ctx, r, r.choice([0, 1, 2, 3]), segwit=(1 if k % 4 == 0 else None))
        ctx.label("api/parse_hex-clone-defaults")
        yield ("prop", "api_forms", [v])
        yield ("prop", "script_api", [r_cmds(ctx, r), r_spk_cmds(ctx, r), ctx.rbytes(r.randrange(0, 4))])
    yield ("prop", "script_api", [[], [], b""])
    for v in base:
        yield ("prop", "api_forms", [v])
    # fetcher on every network, unknown networks
    for k in range(ctx.n(40, 600)):
        v = good[k % len(good)]
        w = good[(k * 11 + 5) % len(good)]
        raw, tid = ref_full(v), ref_txid(v).encode()
        for net in NETWORKS:
            ctx.label("fetch/network")
            yield ("prop", "fetch_network", [hexresp(raw), tid, net, 1])
            if ref_txid(w) != ref_txid(v):
                yield ("prop", "fetch_network", [hexresp(ref_full(w)), tid, net, 0])
        yield ("prop", "fetch_network", [hexresp(raw), tid, r.choice([b"regtest", b"", b"Mainnet", b"mainnet ", b"testnet4"]), 0])
    # ------------------------------------------------------------ model-vs-implementation on the stream model
    # Tx.parse at an arbitrary position of an arbitrary buffer (Model/TxStream.v has the seek(-5, 1) with clamping)
    for k in range(ctx.n(400, 6000)):
        v = mids[k % len(mids)] if k % 4 else base[k % len(base)]
        raw = ref_full(v)
        pre = ctx.rbytes(r.choice([0, 1, 2, 3, 4, 5, 6, 7, 8, 37, 100]))
        post = posts()
        ctx.label("stream-model/tx@" + ("0" if not pre else "1..4" if len(pre) < 5 else ">=5"))
        yield ("corr", "tx_parse_st", [pre + raw + post, len(pre)])
        if k % 5 == 0:   # truncated / corrupted object behind a prefix
            yield ("corr", "tx_parse_st", [pre + raw[: r.randrange(0, len(raw))], len(pre)])
            b = bytearray(raw)
            b[r.randrange(min(len(b), 12))] ^= r.choice([1, 0x80, 0xff])
            yield ("corr", "tx_parse_st", [pre + bytes(b) + post, len(pre)])
    # fewer than five bytes left (the step back reaches into the prefix), all small sizes; positions beyond the end
    for npre in range(0, 9):
        for left in range(0, 7):
            for fill in (0, 1):
                data = ctx.rbytes(npre + left) if fill else bytes([1, 0, 0, 0, 0, 1, 0, 0, 0, 0, 0, 0, 0, 0, 0, 0])[: npre + left]
                ctx.label("stream-model/short")
                yield ("corr", "tx_parse_st", [data, npre])
        for beyond in (1, 2, 5, 6, 20):
            ctx.label("stream-model/position-beyond-end")
            yield ("corr", "tx_parse_st", [ctx.rbytes(npre), npre + beyond])
    tiny = ref_full([1, [], [], 0, 1])
    for pos in range(0, 2 * len(tiny) + 3):
        yield ("corr", "tx_parse_st", [tiny + tiny, pos])
    for k in range(ctx.n(60, 800)):
        seq = [mids[(k * 3 + 7 * j) % len(mids)] for j in range(r.randrange(0, 5))]
        pre = ctx.rbytes(r.choice([0, 1, 4, 5, 9]))
        data = pre + b"".join(ref_full(v) for v in seq) + posts()
        ctx.label("stream-model/tx-sequence")
        yield ("corr", "tx_parse_seq", [len(seq), data, len(pre)])
        yield ("corr", "tx_parse_seq", [len(seq) + 1, data, len(pre)])
    # parse_hex / clone
    for k in range(ctx.n(200, 3000)):
        v = mids[(k * 5 + 2) % len(mids)] if k % 3 else r_tx(ctx, r, r.choice([0, 1, 2]))
        ctx.label("api-model/clone")
        yield ("corr", "tx_clone", [v])
        if serializable(v):
            hx = ref_full(v).hex().encode()
            forms = [hx, hx.upper(), hx + b"\n", b" " + hx, b" ".join(hx[i:i + 2] for i in range(0, len(hx), 2)), hx[:-1],
                     hx + b"zz", hx + b"00", hx[:8], b"", hx[:9] + b" " + hx[9:], hx + b"\xc2\xa0"]
            ctx.label("api-model/parse_hex")
            yield ("corr", "tx_parse_hex", [hx])
            yield ("corr", "tx_parse_hex", [r.choice(forms)])
    # Script.parse_hex / + / ==, and the converse of the script round trip on arbitrary bytes
    for k in range(ctx.n(300, 4000)):
        a, b = r_cmds(ctx, r, big=(k % 7 == 0)), r_spk_cmds(ctx, r)
        if k % 11 == 0:
            a = a + [r.choice([300, -1, 77, 1])]
        sa = [a, [ctx.rbytes(r.randrange(0, 6))] if k % 9 == 0 else []]
        sb = [b, [ctx.rbytes(3)] if k % 13 == 0 else []]
        ctx.label("api-model/script-add-eq")
        yield ("corr", "script_add", [sa, sb])
        yield ("corr", "script_eq", [sa, sb])
        yield ("corr", "script_eq", [sa, [list(a), []]])
        yield ("corr", "script_eq", [[canon_cmds(a), []], sa])
        if cmds_serializable(a):
            raw = ref_cmds(a)
            hx = raw.hex().encode()
            yield ("corr", "script_parse_hex", [r.choice([hx, hx.upper(), hx[:-1], hx + b" ", b"4c01" + hx, hx + b"4d0100"])])
            ctx.label("script-canon/canonical" if cmds_wf(a) else "script-canon/int-1..78")
            yield ("prop", "script_canon", [raw])
            if raw:
                m = bytearray(raw)
                m[r.randrange(len(m))] = r.choice([0, 1, 75, 76, 77, 78, 79, r.getrandbits(8)])
                ctx.label("script-canon/mutated")
                yield ("prop", "script_canon", [bytes(m)])
                yield ("prop", "script_canon", [raw[: r.randrange(0, len(raw))]])
        yield ("prop", "script_canon", [ctx.rbytes(r.randrange(0, 40))])
    for op, w in ((76, 1), (77, 2), (78, 4)):          # every push form at the class boundaries
        for dl in (0, 1, 74, 75, 76, 77, 254, 255, 256, 257, 519, 520, 521, 600):
            if dl < 256 ** w:
                ctx.label("script-canon/pushdata-form")
                yield ("prop", "script_canon", [bytes([op]) + dl.to_bytes(w, "little") + ctx.rbytes(dl)])
                yield ("prop", "script_canon", [b"\x51" + bytes([op]) + dl.to_bytes(w, "little") + ctx.rbytes(dl) + b"\xac"])
    for dl in range(0, 77):
        yield ("prop", "script_canon", [bytes([dl]) + ctx.rbytes(dl)])
    # the fetcher with its network argument: histories over served and unserved network names
    nets = [b"mainnet", b"testnet", b"signet", b"regtest", b"", b"Mainnet"]
    for k in range(ctx.n(80, 1000)):
        v = good[k % len(good)]
        w = good[(k * 13 + 1) % len(good)]
        ops = []
        for _ in range(r.randrange(2, 8)):
            a, b = r.choice([v, w]), r.choice([v, w])
            hx = hexresp(ref_full(b))
            resp = hx + r.choice([b"", b"\n", b"\r\n"]) if r.random() < 0.8 else r.choice([b"zz", b"", hx[:-2]])
            ops.append([r.randrange(2), resp, ref_txid(a).encode(), r.choice(nets if r.random() < 0.5 else nets[:3])])
        ctx.label("fetch/network-history")
        yield ("corr", "fetch_net_run", [ops])
        yield ("prop", "fetch_cross_network", [hexresp(ref_full(v)), ref_txid(v).encode(), r.choice(nets[:3]), r.choice(nets)])
        yield ("prop", "fetch_cross_network", [hexresp(ref_full(w)), ref_txid(v).encode(), r.choice(nets[:3]), r.choice(nets)])
    # Script.parse(stream, raw) argument check; constructor defaults of TxIn / Tx
    for k in range(ctx.n(120, 1500)):
        a = r_cmds(ctx, r)
        enc = ref_script([a]) + ctx.rbytes(r.randrange(0, 3)) if cmds_serializable(a) else ctx.rbytes(r.randrange(0, 12))
        raw = ref_cmds(a) if cmds_serializable(a) and k % 3 else ctx.rbytes(r.randrange(0, 9))
        ctx.label("api-model/script-parse-args")
        yield ("corr", "script_parse_args", [[enc], []])
        yield ("corr", "script_parse_args", [[], [raw]])
        yield ("corr", "script_parse_args", [[enc], [raw]])
        yield ("corr", "script_parse_args", [[enc[: r.randrange(0, len(enc) + 1)]], r.choice([[], [b""]])])
        pts = [[ctx.rbytes(32 if r.random() < 0.9 else r.choice([0, 31, 33])), r_u32(r) if r.random() < 0.9 else r.choice([-1, U32])]
               for _ in range(r.randrange(0, 4))]
        ctx.label("api-model/constructor-defaults")
        yield ("corr", "tx_defaults", [r.choice([1, 2, 0, U32 - 1, U32, -1]), pts, [r_txout(ctx, r) for _ in range(r.randrange(0, 3))]])
    yield ("corr", "script_parse_args", [[], []])
    yield ("corr", "script_parse_args", [[b""], []])
    yield ("corr", "script_parse_args", [[b""], [b""]])
    yield ("corr", "script_parse_args", [[], [b""]])
    # the consumers of the cache: TxIn.value / TxIn.script_pubkey of an input spending a fetched transaction
    for k in range(ctx.n(150, 2000)):
        v = good[k % len(good)]
        w = good[(k * 17 + 3) % len(good)]
        nout = len(v[2])
        idx = r.choice([0, 0, 1, max(nout - 1, 0), nout, nout + 1, 0xffffffff, r.randrange(0, 4)])
        prev = bytes.fromhex(ref_txid(v))
        if k % 10 == 0:
            prev = r.choice([prev[::-1], prev[:31], b"", ctx.rbytes(32)])
        i = [prev, idx, [[], []], r.choice([0xffffffff, 0, -1 if k % 50 == 0 else 5]), []]
        resp = hexresp(ref_full(v)) + r.choice([b"", b"\n"]) if k % 7 else r.choice([hexresp(ref_full(w)), b"zz", b""])
        ctx.label("fetch/prevout-value-script")
        yield ("corr", "txin_prevout", [i, r.choice(nets[:3]) if k % 9 else r.choice(nets), resp])

    # ------------------------------------------------------------ audit round 3: the less travelled doors
    # (alternative entry points, defaults edited in place, per-element attributes, sharing between a result and its
    #  source, failure followed by a retry, hand-built encodings of special byte classes / non-minimal compact sizes)
    pool = [s for s in good if s[2]]
    for k in range(ctx.n(60, 800)):
        push = ctx.rbytes(r.choice([0, 1, 20, 75, 76, 255, 256, 520, r.randrange(1, 90)]))
        item = ctx.rbytes(r.choice([0, 1, 64, 72, 253, r.randrange(1, 80)]))
        ctx.label("audit/defaults-edited-in-place")
        yield ("prop", "defaults_isolated", [ctx.rbytes(32), ctx.rbytes(32), push, item])
        v = pool[(k * 3 + 1) % len(pool)] if k % 3 else r_tx(ctx, r, r.choice([1, 2, 3]), r.choice([1, 2, 3]))
        net = r.choice(NETWORKS) if k % 4 else r.choice([b"regtest", b"mainnet"])
        ctx.label("audit/deep-in-place-edit+clone-source")
        yield ("prop", "inplace_deep", [v, push, item, net])
        ctx.label("audit/entry-points-with-network")
        yield ("prop", "entry_points", [pool[(k * 7 + 2) % len(pool)] if k % 2 else r_tx(ctx, r, r.choice([1, 2]), None, k % 4 // 2), net])
        # finalize_*: signatures that DIFFER from each other (lengths 0, 1, 64..73), a script of at most 520 bytes
        sigs = [ctx.rbytes(n) for n in r.sample([0, 1, 64, 65, 70, 71, 72, 73], r.randrange(1, 5))]
        cmds = [c for c in r_cmds(ctx, r, r.randrange(0, 5)) if isinstance(c, int) or len(c) <= 100]
        ctx.label("audit/finalize")
        yield ("prop", "finalize_forms", [ctx.rbytes(32), r_u32(r), sigs, ctx.rbytes(r.choice([33, 65])), cmds])
    yield ("prop", "finalize_forms", [bytes(32), 0, [b""], b"", []])
    yield ("prop", "finalize_forms", [b"\xff" * 32, 0xffffffff, [ctx.rbytes(72), ctx.rbytes(71), ctx.rbytes(72)], ctx.rbytes(33),
                                      [0x52, ctx.rbytes(33), ctx.rbytes(33), ctx.rbytes(33), 0x53, 0xae]])
    # fetcher histories with a verdict after every call; failure -> retry; a refused fresh re-fetch of a cached id
    for k in range(ctx.n(120, 1500)):
        v = good[k % len(good)]
        w = good[(k * 19 + 7) % len(good)]
        if ref_txid(v) == ref_txid(w):
            continue
        hv, hw, iv, iw = hexresp(ref_full(v)), hexresp(ref_full(w)), ref_txid(v).encode(), ref_txid(w).encode()
        net = r.choice(NETWORKS)
        fixed = [[[1, hw, iv, net, 0], [0, hv, iv, net, 1], [0, b"zz", iv, net, 0]],              # lie, honest retry, hit
                 [[0, hv, iv, net, 1], [1, hw, iv, net, 0], [0, b"00", iv, net, 0], [1, hv, iv, net, 1]],   # good entry, refused re-fetch
                 [[0, hw, iv, net, 0], [0, hw, iv, net, 0], [0, hw, iw, net, 1], [0, hv, iv, b"regtest", 0], [0, hv, iv, net, 1]],
                 [[1, hv[:-2], iv, net, 0], [0, hv + b"\n", iv, net, 1], [1, b"", iv, net, 0], [0, b"", iv, b"", 0]]]
        ops = fixed[k % 4] if k % 2 else []
        for _ in range(r.randrange(2, 7)):
            a = r.choice([v, w])
            b = r.choice([v, w, v, w, None])
            nt = r.choice(NETWORKS) if r.random() < 0.8 else r.choice([b"regtest", b""])
            resp = b"zz" if b is None else hexresp(ref_full(b))
            ops.append([r.randrange(2), resp, ref_txid(a).encode(), nt, 1 if (b is a and nt in NETWORKS) else 0])
        ctx.label("audit/fetch-history-verdict-per-call")
        yield ("prop", "fetch_history", [ops])
        if k % 6 == 0:
            ctx.label("audit/disk-cache")
            yield ("prop", "cache_file", [[[hv, iv], [hw, iw]][: 1 + k % 2], [[hw, iw]] if k % 4 == 0 else []])
    yield ("prop", "cache_file", [[], []])
    # prevout consumers: inputs that spend different outputs (different amounts / scripts) of different transactions
    multi = [s for s in good if len(s[2]) >= 2] or pool
    for k in range(ctx.n(60, 800)):
        prevs = [multi[(k * 5 + j * 11) % len(multi)] for j in range(r.choice([1, 2, 3]))]
        if len({ref_txid(p) for p in prevs}) != len(prevs):
            continue
        spends = [[j, m] for j, p in enumerate(prevs) for m in range(len(p[2])) if r.random() < 0.7] or [[0, 0]]
        r.shuffle(spends)
        lie = []
        if k % 3 == 0:
            k0 = spends[r.randrange(len(spends))][0]
            other = _copy_v(prevs[k0])
            other[2][r.randrange(len(other[2]))][0] ^= 1 << r.randrange(40)
            lie = [[k0, hexresp(ref_full(r.choice([other, multi[(k * 5 + 3) % len(multi)]])))]]
            if bytes.fromhex(lie[0][1].decode()) == ref_full(prevs[k0]):
                lie = []
        ctx.label("audit/prevouts-per-input" + ("/lying-server+retry" if lie else ""))
        yield ("prop", "prevouts", [prevs, spends, r.choice(NETWORKS), lie])
    # hand-built encodings: ONE non-minimal compact size per transaction, every field kind x every wider width
    nm = [[1, [small_in(ctx, r, 0)], [[5, [[0x51], []]]], 0, 0],
          [2, [[ctx.rbytes(32), 1, [[ctx.rbytes(20)], []], 0xfffffffe, [ctx.rbytes(3), b""]], small_in(ctx, r, 1, [b"\x07"])],
           [[9, [[0, bytes(20)], []]], [8, [[0x6a, ctx.rbytes(80)], []]]], 17, 1],
          [1, [], [[5, [[0x51], []]]], 0, 0],          # zero inputs, legacy: fd 00 00 is NOT read as the segwit marker
          [1, [], [], 0, 1]]
    for v in nm:
        for where in (b"in_count", b"out_count", b"sig_len", b"spk_len", b"wit_count", b"wit_len"):
            if (where in (b"wit_count", b"wit_len") and not (v[4] and v[1])) or (where == b"sig_len" and not v[1]) \
                    or (where == b"spk_len" and not v[2]) or (where == b"wit_len" and not v[1][0][4]):
                continue
            for w in (3, 5, 9):
                ctx.label("audit/non-minimal-compact-size/" + where.decode())
                yield ("prop", "nonminimal", [v, where, w])
                yield ("corr", "tx_parse", [ref_full_w(v, where.decode(), w) + ctx.rbytes(w % 3)])
                yield ("corr", "fetch_text", [hexresp(ref_full_w(v, where.decode(), w)), ref_txid(v).encode()])
    # special byte classes: all-zero / all-ff fields, coinbase outpoint, hex text without letters / without digits
    AC = [0xac] * 170
    special = [[1, [[bytes(32), 0xffffffff, [[b"\x03\x01\x02\x03"], []], 0xffffffff, [bytes(32)]]], [[50 * 10 ** 8, [[0x51], []]]], 0, 1],
               [1, [[bytes(32), 0xffffffff, [[b"\x03\x01\x02\x03"], []], 0xffffffff, []]], [[50 * 10 ** 8, [[0x51], []]]], 0, 0],
               [0xffffffff, [[b"\xff" * 32, 0xffffffff, [[0xff] * 5, []], 0xffffffff, [b"\xff" * 40]]], [[U64 - 1, [[0xff, b"\xff" * 75], []]]], 0xffffffff, 1],
               [0xffffffff, [[b"\xff" * 32, 0xffffffff, [[0xff] * 5, []], 0xffffffff, []]] * 2, [[U64 - 1, [[0xff, b"\xff" * 76], []]]] * 2, 0xffffffff, 0],
               [0, [[bytes(32), 0, [[0, 0, 0], []], 0, [b"", bytes(3)]]], [[0, [[0], []]]], 0, 1],
               [0, [[bytes(32), 0, [[], []], 0, []]], [[0, [[], []]]], 0, 0],
               [0, [[bytes(32), 0, [[bytes(75)], []], 0, []]], [[0, [[bytes(76)], []]], [0, [[bytes(256)], []]]], 0, 0],
               # hex text made of digits only
               [0x01020304, [[bytes([0x10 + j for j in range(10)] * 3 + [0x99, 0x98]), 0x90, [[b"\x11\x22"], []], 0x99999999, []]],
                [[0x1000, [[0x51, 0x93], []]]], 0x70605040, 0],
               # hex text made of letters only (170 inputs / outputs, every byte in aa..ff)
               [0xaaaaaaaa, [[b"\xab\xcd\xef\xfe" * 8, 0xbbbbbbbb, [AC, []], 0xeeeeeeee, []]] * 170,
                [[0xdddddddddddddddd, [AC, []]]] * 170, 0xffffffff, 0]]
    for v in special:
        hx = ref_full(v).hex().encode()
        ctx.label("audit/special-byte-class")
        yield from tx_cases(v, ctx, r)
        yield ("prop", "api_forms", [v])
        yield ("prop", "entry_points", [v, b"signet"])
        yield ("prop", "mid_stream", [b"tx", ctx.rbytes(3), v, b"\x00"])
        yield ("prop", "fetch", [hx, ref_txid(v).encode(), 1])
        yield ("prop", "fetch", [hx.upper(), ref_txid(v).encode(), 1])
        yield ("corr", "tx_parse_hex", [hx])
        yield ("corr", "tx_parse_hex", [hx.upper()])
        if len(hx) < 2000:   # (the model's text layer is too slow on a 130 kB response)
            yield ("corr", "fetch_text", [hx.upper() + b"\n", ref_txid(v).encode()])
            yield ("prop", "inplace_deep", [v, b"\x00", b"", b"testnet"])
    assert not any(c in b"abcdef" for c in ref_full(special[-2]).hex().encode())
    assert not any(c in b"0123456789" for c in ref_full(special[-1]).hex().encode())
    # the requested id in another byte order / of the full (witness) serialisation is not the transaction's id
    for k in range(ctx.n(40, 400)):
        v = good[(k * 3) % len(good)]
        raw = ref_full(v)
        ctx.label("audit/fetch-id-forms")
        yield ("prop", "fetch", [hexresp(raw), _h256(ref_legacy(v)).hex().encode(), 0])
        yield ("corr", "fetch_text", [hexresp(raw), _h256(ref_legacy(v)).hex().encode()])
        if v[4] and any(i[4] for i in v[1]):
            yield ("prop", "fetch", [hexresp(raw), _h256(raw)[::-1].hex().encode(), 0])
