"""Independent reference implementations used by the C01 / C02 property predicates:
secp256k1 arithmetic on Python ints (Jacobian-free affine formulas with pow(x, -1, p)),
RFC 6979 (hashlib/hmac), textbook ECDSA, strict DER, BIP340.  Nothing here imports buidl."""
import hashlib
import hmac

P = 2 ** 256 - 2 ** 32 - 977
N = 0xFFFFFFFFFFFFFFFFFFFFFFFFFFFFFFFEBAAEDCE6AF48A03BBFD25E8CD0364141
GX = 0x79BE667EF9DCBBAC55A06295CE870B07029BFCDB2DCE28D959F2815B16F81798
GY = 0x483ADA7726A3C4655DA4FBFC0E1108A8FD17B448A68554199C47D08FFB10D4B8
G = (GX, GY)


def on_curve(pt):
    if pt is None:
        return True
    x, y = pt
    return 0 <= x < P and 0 <= y < P and (y * y - x * x * x - 7) % P == 0


def add(a, b):
    if a is None:
        return b
    if b is None:
        return a
    (x1, y1), (x2, y2) = a, b
    if x1 == x2:
        if (y1 + y2) % P == 0:
            return None
        lam = 3 * x1 * x1 * pow(2 * y1, -1, P) % P
    else:
        lam = (y2 - y1) * pow(x2 - x1, -1, P) % P
    x3 = (lam * lam - x1 - x2) % P
    return (x3, (lam * (x1 - x3) - y1) % P)


def neg(a):
    return None if a is None else (a[0], (-a[1]) % P)


def mul(k, pt):
    """MSB-first double-and-add (the implementation is LSB-first)."""
    k %= N
    acc = None
    for bit in bin(k)[2:] if k else "":
        acc = add(acc, acc)
        if bit == "1":
            acc = add(acc, pt)
    return acc


def lift_x(x):
    if x >= P:
        return None
    c = (pow(x, 3, P) + 7) % P
    y = pow(c, (P + 1) // 4, P)
    if y * y % P != c:
        return None
    return (x, y if y % 2 == 0 else P - y)


# ------------------------------------------------------------------ RFC 6979 + ECDSA

def rfc6979_k(x, h1, q=N, hm=None):
    """RFC 6979 section 3.2 for qlen = hlen = 256; h1 is the 32-byte message hash."""
    if hm is None:
        def hm(k, m):
            return hmac.new(k, m, hashlib.sha256).digest()
    z1 = int.from_bytes(h1, "big")
    z2 = z1 - q if z1 >= q else z1
    xo = x.to_bytes(32, "big")
    ho = z2.to_bytes(32, "big")
    v = b"\x01" * 32
    k = b"\x00" * 32
    k = hm(k, v + b"\x00" + xo + ho)
    v = hm(k, v)
    k = hm(k, v + b"\x01" + xo + ho)
    v = hm(k, v)
    while True:
        t = b""
        while len(t) < 32:
            v = hm(k, v)
            t += v
        cand = int.from_bytes(t, "big")
        if 1 <= cand <= q - 1:
            return cand
        k = hm(k, v + b"\x00")
        v = hm(k, v)


def ecdsa_sign_k(d, z, k):
    r = mul(k, G)[0] % N
    s = (z + r * d) * pow(k, -1, N) % N
    if s > (N - 1) // 2:
        s = N - s
    return r, s


def ecdsa_sign(d, z):
    """deterministic, low-S; z an integer digest in [0, 2^256)."""
    return ecdsa_sign_k(d, z, rfc6979_k(d, z.to_bytes(32, "big")))


def ecdsa_verify(q, z, r, s):
    if not (1 <= r <= N - 1 and 1 <= s <= N - 1):
        return False
    w = pow(s, -1, N)
    pt = add(mul(z * w % N, G), mul(r * w % N, q))
    if pt is None:
        return False
    return pt[0] % N == r


def der_int(v):
    b = v.to_bytes((v.bit_length() + 7) // 8 or 1, "big")
    if b[0] & 0x80:
        b = b"\x00" + b
    return b"\x02" + bytes([len(b)]) + b


def der(r, s):
    body = der_int(r) + der_int(s)
    return b"\x30" + bytes([len(body)]) + body


def der_strict_parse(b):
    """strict DER for two positive INTEGERs; None when not canonical."""
    if len(b) < 8 or b[0] != 0x30 or b[1] != len(b) - 2:
        return None
    out = []
    pos = 2
    for _ in range(2):
        if pos + 2 > len(b) or b[pos] != 2:
            return None
        ln = b[pos + 1]
        body = b[pos + 2: pos + 2 + ln]
        if ln == 0 or len(body) != ln or body[0] & 0x80:
            return None
        if ln > 1 and body[0] == 0 and not body[1] & 0x80:
            return None
        out.append(int.from_bytes(body, "big"))
        pos += 2 + ln
    if pos != len(b):
        return None
    return tuple(out)


# ------------------------------------------------------------------ BIP340

def tagged(tag, msg):
    t = hashlib.sha256(tag).digest()
    return hashlib.sha256(t + t + msg).digest()


def bip340_sign(d0, m, a):
    if not 1 <= d0 <= N - 1:
        return None
    pt = mul(d0, G)
    d = d0 if pt[1] % 2 == 0 else N - d0
    t = bytes(x ^ y for x, y in zip(d.to_bytes(32, "big"), tagged(b"BIP0340/aux", a)))
    k0 = int.from_bytes(tagged(b"BIP0340/nonce", t + pt[0].to_bytes(32, "big") + m), "big") % N
    if k0 == 0:
        return None
    r = mul(k0, G)
    k = k0 if r[1] % 2 == 0 else N - k0
    e = int.from_bytes(tagged(b"BIP0340/challenge", r[0].to_bytes(32, "big") + pt[0].to_bytes(32, "big") + m),
                       "big") % N
    sig = r[0].to_bytes(32, "big") + ((k + e * d) % N).to_bytes(32, "big")
    if not bip340_verify(pt[0].to_bytes(32, "big"), m, sig):
        return None
    return sig


def bip340_verify(pk, m, sig):
    if len(pk) != 32 or len(sig) != 64:
        return False
    pt = lift_x(int.from_bytes(pk, "big"))
    if pt is None:
        return False
    r = int.from_bytes(sig[:32], "big")
    s = int.from_bytes(sig[32:], "big")
    if r >= P or s >= N:
        return False
    e = int.from_bytes(tagged(b"BIP0340/challenge", sig[:32] + pk + m), "big") % N
    rr = add(mul(s, G), neg(mul(e, pt)))
    if rr is None or rr[1] % 2 != 0 or rr[0] != r:
        return False
    return True
