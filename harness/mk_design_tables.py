#!/usr/bin/env python3
"""Regenerates the generated parts of DESIGN.md (between the GENERATED markers): §8 defect tables from
KNOWN_FINDINGS.json + `git log` of /repo, §11 per-property summary from harness/manifest, Props/*.v and seeded/*/meta.json."""
import json, os, re, subprocess, glob

V = os.path.dirname(os.path.dirname(os.path.abspath(__file__)))


def fix_commits():
    out = subprocess.check_output(["git", "-C", "/repo", "log", "--reverse", "--format=%h %s"]).decode().splitlines()
    return [(l.split()[0], l.split(" ", 1)[1]) for l in out if " fix:" in " " + l]


def section8():
    k = json.load(open(os.path.join(V, "KNOWN_FINDINGS.json")))["findings"]
    by_commit = {}
    for f in k:
        if f["status"] == "fixed":
            by_commit.setdefault(f.get("commit", "")[:7], []).append(f)
    lines = ["### 8.1 Genuine defects repaired in `/repo` (one `fix:` commit each)", "",
             "Every row was reproduced on the real code with the replay named in the last column (a property predicate of the",
             "harness with concrete arguments, stored in `KNOWN_FINDINGS.json`); every replay was confirmed to FAIL in a scratch",
             "worktree with its commit reverted and to hold at HEAD, and it runs as a regression case on every check.", "",
             "| # | commit | properties | what was wrong (commit subject) | regression replays |", "|---|---|---|---|---|"]
    for n, (sha, subj) in enumerate(fix_commits(), 1):
        fs = by_commit.get(sha, [])
        props = ", ".join(sorted({f["property"] for f in fs})) or "—"
        keys = ", ".join(f"`{f['key']}`" for f in fs) or "(none)"
        lines.append(f"| {n} | {sha} | {props} | {subj[5:].strip()} | {keys} |")
    lines += ["", "### 8.2 Known findings (genuine defects or inherent limitations left in `/repo`)", "",
              "Each is reported as `KNOWN-FINDING` (exit 0) and matched only through the `classify()` of its property module;",
              "any other failing input of the same property is still a VIOLATION.", "",
              "| property | key | what | why not repaired |", "|---|---|---|---|"]
    why = {
        "K-C07-2rot": "the repository's own test `test_op.py::test_op_2rot` asserts the wrong stack length, so a repair cannot keep the unedited suite passing",
        "K-C04-zeroin": "inherent ambiguity of the BIP144 marker byte",
        "K-C17-total": "inherent to BIP37: the transaction count of a merkleblock message is not authenticated",
        "K-C11-amount": "BIP174 limitation: a witness-UTXO amount cannot be checked without the previous transaction",
        "K-C17-pow-eq": "differs from consensus only when hash == target; no input can exhibit it",
        "K-C17-compact": "edge domain of the compact-bits encoding (exponent < 3, sign bit, overflow, targets < 0x8000); a faithful SetCompact/GetCompact port is more than a minimal patch",
        "K-C17-hashlen": "not reachable from the wire (MerkleBlock.parse always yields 32-byte hashes)",
        "K-C03-xonly-zero-is-infinity": "deliberate design of the x-only codec (xonly() of infinity is 32 zero bytes); changing it alters MuSig/Schnorr plumbing",
        "C05-script-code-reserialized": "outside the property's quantifier (standard script kinds); keeping raw bytes for non-minimal pushes changes Script.parse for every caller",
        "K-C12-leafhash-reserialised": "same root cause as C05-script-code-reserialized (Script.parse drops non-minimal push encodings)",
        "K-C10-xpub-network-order": "network inference from derivation paths is tested behaviour; an order-independent rule would change accepted inputs or expected bytes",
        "C16-separator-substitution-skips-checksum": "the '#' separator is neither body nor checksum; the lenient leading/trailing `.*` of the regex is relied upon for pasted exports",
        "C16-constructor-accepts-what-parse-rejects": "validation asymmetry between constructor and parser on inputs outside the property's 'valid key records' quantifier",
    }
    for f in k:
        if f["status"] == "known":
            what = re.sub(r"^known: property=\S+ ", "", f["what"]).replace("|", "/")
            lines.append(f"| {f['property']} | `{f['key']}` | {what[:420]} | {why.get(f['key'], 'see findings/' + f['property'] + '.json')} |")
    return "\n".join(lines)


def theorems(pid):
    p = os.path.join(V, "coq", "Props", pid + ".v")
    if not os.path.exists(p):
        return []
    return re.findall(r"^\s*Theorem\s+(\w+)", open(p).read(), re.M)


def section11():
    lines = []
    for i in range(1, 21):
        pid = f"C{i:02d}"
        mf = os.path.join(V, "harness", "manifest", pid + ".json")
        man = json.load(open(mf)) if os.path.exists(mf) else None
        if man is None:
            try:
                mm = json.load(open(os.path.join(V, "MANIFEST.json")))
                c = [c for c in mm["checks"] if c["property_id"] == pid][0]
                man = {"text": c["level_claimed"]["text"], "note": c["level_note"]}
            except Exception:
                man = {"text": "(not built)", "note": ""}
        th = theorems(pid)
        lines += [f"### {pid}", "", f"*Proved / checked.* {man['text']}", "", f"*Assumed / trusted / correspondence-only.* {man['note']}", "",
                  f"*Theorems in `coq/Props/{pid}.v` ({len(th)}):* " + ", ".join(f"`{t}`" for t in th), ""]
        seeds = sorted(glob.glob(os.path.join(V, "seeded", pid, "*", "meta.json")))
        if seeds:
            lines.append("*Seeded changes (independent sub-agents, `seeded/%s/`):*" % pid)
            lines.append("")
            for s in seeds:
                m = json.load(open(s))
                note = ""
                npath = os.path.join(os.path.dirname(s), "notes.md")
                first = ""
                if os.path.exists(npath):
                    txt = open(npath).read().strip().splitlines()
                    first = next((l.strip("# ").strip() for l in txt if l.strip()), "")
                res = "caught with a failing input" if m["check"].get("with_failing_input") else \
                    ("caught (no-failing-input-found)" if m["check"].get("caught") else "MISSED")
                if "first_result" in m and not m["first_result"].get("caught"):
                    res += " — after strengthening (first version of the check missed it)"
                lines.append(f"* `{m['name']}` — {first[:160]} → **{res}**" + (f". {m['history']}" if m.get("history") else ""))
            lines.append("")
    return "\n".join(lines)


def main():
    p = os.path.join(V, "DESIGN.md")
    s = open(p).read()
    for tag, body in (("SECTION8", section8()), ("SECTION11", section11())):
        a, b = f"<!-- GENERATED:{tag}:BEGIN -->", f"<!-- GENERATED:{tag}:END -->"
        if a in s:
            s = s[:s.index(a) + len(a)] + "\n" + body + "\n" + s[s.index(b):]
    open(p, "w").write(s)


if __name__ == "__main__":
    main()
