"""Proof gate: full make, re-check Props/<pid>.v, scrape Print Assumptions, forbidden-token gate."""
import os
import re

from . import build

FORBIDDEN = re.compile(
    r"\b(Admitted|admit|Axiom|Axioms|Parameter|Parameters|Conjecture|Conjectures|Admit Obligations|"
    r"bypass_check|native_compute)\b|Unset\s+Guard|Unset\s+Positivity|Unset\s+Universe|type-in-type|impredicative-set")
COMMENT = re.compile(r"\(\*.*?\*\)", re.S)

# axioms of the standard library that a theorem may depend on (each is reported in the evidence)
ALLOWED_AXIOMS = {
    "functional_extensionality_dep", "FunctionalExtensionality.functional_extensionality_dep",
    "classic", "Classical_Prop.classic", "proof_irrelevance", "JMeq_eq", "Eqdep.Eq_rect_eq.eq_rect_eq",
    "propositional_extensionality", "ClassicalEpsilon.constructive_indefinite_description",
}


def strip_comments(src):
    prev = None
    while prev != src:
        prev = src
        src = COMMENT.sub(" ", src)
    return src


def forbidden_tokens(files):
    bad = []
    for f in files:
        src = strip_comments(open(os.path.join(build.COQ, f)).read())
        for m in FORBIDDEN.finditer(src):
            # "Variable"/"Hypothesis" are fine inside sections; Parameter etc. never
            bad.append(f"{f}: {m.group(0)}")
        # Variable / Hypothesis outside a section
        depth = 0
        for line in src.splitlines():
            ls = line.strip()
            if re.match(r"^(Section|Module)\s+\w+", ls) and not re.match(r"^Module\s+\w+\s*:=", ls):
                depth += 1
            elif re.match(r"^End\s+\w+\s*\.", ls):
                depth -= 1
            elif depth <= 0 and re.match(r"^(Variable|Variables|Hypothesis|Hypotheses|Context)\b", ls):
                bad.append(f"{f}: {ls[:60]} outside a section")
    return bad


def check_props(pid):
    """Returns dict(ok, obligations, discharged, theorems, assumptions, log, checker_cmd, failures)."""
    res = {"ok": False, "obligations": 0, "discharged": 0, "theorems": [], "assumptions": {},
           "failures": [], "log": ""}
    vfile = f"Props/{pid}.v"
    src = strip_comments(open(os.path.join(build.COQ, vfile)).read())
    thms = re.findall(r"^\s*(?:Theorem|Lemma|Corollary)\s+(\w+)", src, re.M)
    res["theorems"] = thms
    res["obligations"] = len(thms)
    res["checker_cmd"] = (f"cd /verif && ./coqmake {vfile}o && cd coq && coqc -Q . V {vfile}"
                          "   (Coq 8.16.1, full .vo build of the property file and everything it depends on)")
    # translators: regenerate coq/Generated/*.v from the sources of the tree under test (idempotent)
    import glob as _glob, sys as _sys
    for g in sorted(_glob.glob(os.path.join(build.VERIF, "harness", "gen_coq*.py"))):
        rcg, outg, _ = build.run([_sys.executable, g], cwd=build.VERIF, timeout=600)
        if rcg != 0:
            res["failures"].append(f"translator {os.path.basename(g)} failed on the current sources: " + outg[-400:])
    ok, log = build.coq_make([vfile + "o", f"Dispatch/D{pid}.vo"])
    res["log"] = log[-4000:]
    deps = build.vo_deps(vfile)
    res["files"] = deps
    bad = forbidden_tokens(deps)
    if bad:
        res["failures"].append("forbidden tokens: " + "; ".join(bad[:10]))
    rc, out, dt = build.run(["coqc", "-Q", ".", "V", vfile], cwd=build.COQ, timeout=3000)
    res["coqc_s"] = round(dt, 1)
    if rc != 0:
        res["failures"].append("coqc failed on " + vfile + ": " + out[-1500:])
        # which theorems were accepted before the failure? count the Print Assumptions outputs
    # parse Print Assumptions outputs, in order
    blocks = re.split(r"(?m)^(?=Closed under the global context|Axioms:|Section Variables:)", out)
    outs = [b for b in blocks if b.startswith(("Closed under", "Axioms:", "Section Variables:"))]
    printed = re.findall(r"Print\s+Assumptions\s+(\w+)\s*\.", src)
    for name, blk in zip(printed, outs):
        if blk.startswith("Closed under"):
            res["assumptions"][name] = []
        else:
            ax = re.findall(r"(?m)^([\w.']+)\s*:", blk)
            res["assumptions"][name] = ax
            for a in ax:
                if a not in ALLOWED_AXIOMS and a.split(".")[-1] not in ALLOWED_AXIOMS:
                    res["failures"].append(f"theorem {name} depends on non-allow-listed axiom {a}")
    missing = [t for t in thms if t not in res["assumptions"]]
    if rc == 0 and missing:
        res["failures"].append("theorems without Print Assumptions: " + ", ".join(missing))
    res["discharged"] = len([t for t in thms if t in res["assumptions"]]) if rc != 0 else \
        len(thms) - len(missing)
    res["ok"] = (rc == 0) and not res["failures"]
    return res
