"""Client for the extracted-model driver, with the hash oracle served from hashlib."""
import hashlib
import hmac
import subprocess

from . import sexp


def _oracle(alg, args):
    if alg == 0:
        return hashlib.sha256(args[0]).digest()
    if alg == 1:
        return hashlib.sha1(args[0]).digest()
    if alg == 2:
        return hashlib.new("ripemd160", args[0]).digest()
    if alg == 3:
        return hashlib.sha512(args[0]).digest()
    if alg == 4:
        return hmac.new(args[0], args[1], hashlib.sha256).digest()
    if alg == 5:
        return hmac.new(args[0], args[1], hashlib.sha512).digest()
    if alg == 6:
        return hmac.new(args[0], args[1], hashlib.sha1).digest()
    raise ValueError(f"unknown oracle algorithm {alg}")


class Driver:
    def __init__(self, exe):
        self.exe = exe
        self.calls = 0
        self.oracle_calls = 0
        self.last_oracle = []
        self._start()

    def _start(self):
        self.p = subprocess.Popen(["/bin/sh", "-c", f"ulimit -s unlimited 2>/dev/null; exec '{self.exe}'"],
                                  stdin=subprocess.PIPE, stdout=subprocess.PIPE, text=True, bufsize=1)

    def call(self, fn, *args):
        self.calls += 1
        self.last_oracle = []
        line = fn + "".join(" " + sexp.enc(a) for a in args) + "\n"
        try:
            self.p.stdin.write(line)
            self.p.stdin.flush()
            while True:
                out = self.p.stdout.readline()
                if not out:
                    raise RuntimeError("driver died")
                if out.startswith("? "):
                    parts = out.split()
                    alg = int(parts[1])
                    hargs = [bytes.fromhex(x[1:]) for x in parts[2:]]
                    self.oracle_calls += 1
                    res = _oracle(alg, hargs)
                    if len(self.last_oracle) < 64:
                        self.last_oracle.append((alg, hargs, res))
                    self.p.stdin.write(res.hex() + "\n")
                    self.p.stdin.flush()
                    continue
                if out.startswith("= "):
                    v = sexp.dec(out[2:])
                    if v == [sexp.ERR, b"bad-args", sexp.ERR]:
                        raise RuntimeError(f"driver: bad arguments for {fn}: {line[:200]}")
                    return v
                raise RuntimeError("driver error: " + out.strip() + " on " + line[:200])
        except (BrokenPipeError, RuntimeError):
            try:
                self.p.kill()
            except Exception:
                pass
            self._start()
            raise

    def close(self):
        try:
            self.p.stdin.close()
            self.p.wait(timeout=5)
        except Exception:
            self.p.kill()
