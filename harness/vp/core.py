"""Engine shared by all property checks: proof gate, correspondence (impl vs extracted
model), property predicates on the implementation, escalation, findings, evidence."""
import hashlib
import json
import os
import random
import signal
import sys
import time
import traceback

from . import build, proofs, sexp
from .driver import Driver
from .sexp import ERR

VERIF = build.VERIF
# VERIF_EVID_DIR / VERIF_MUT_FAST are used ONLY by harness/mutation_adequacy.py (scratch runs against automatically
# mutated copies of the library, many in parallel): evidence goes to a scratch directory and the proof gate, which
# does not depend on the tree under test except through the constant translators, is skipped.  No registered
# command sets them.
EVID = os.environ.get("VERIF_EVID_DIR") or os.path.join(VERIF, "evidence")
REPLAYS = os.path.join(EVID, "replays")
FINDINGS = os.path.join(VERIF, "KNOWN_FINDINGS.json")
CORPUS = os.path.join(VERIF, "corpus")


class ImplTimeout(Exception):
    pass


def _alarm(signum, frame):
    raise ImplTimeout()


TIMEOUTS = [0]          # implementation calls that hit the per-case time limit in this run


def guarded_iter(gen, limit_s=600):
    """iterate a case generator with a watchdog: generators call into the implementation to build cases, and a
    non-terminating loop there must surface as a failure of the check, not hang it"""
    while True:
        signal.signal(signal.SIGALRM, _alarm)
        signal.setitimer(signal.ITIMER_REAL, limit_s)
        try:
            case = next(gen)
        except StopIteration:
            return
        finally:
            signal.setitimer(signal.ITIMER_REAL, 0)
        yield case


def safe(fn, args, timeout=60):
    """Run implementation code: any exception is the canonical ERR."""
    signal.signal(signal.SIGALRM, _alarm)
    signal.setitimer(signal.ITIMER_REAL, timeout)
    try:
        return sexp.canon(fn(*args)), None
    except ImplTimeout:
        TIMEOUTS[0] += 1
        return ERR, "timeout"
    except RecursionError:
        return ERR, "RecursionError"
    except Exception as e:  # noqa
        return ERR, type(e).__name__
    finally:
        signal.setitimer(signal.ITIMER_REAL, 0)


class Ctx:
    def __init__(self, pid, tier, seed, scale=1.0):
        self.pid = pid
        self.tier = tier
        self.seed = seed
        self.scale = scale
        self.rng = random.Random(f"{pid}:{seed}:{scale}")
        self.labels = {}

    def n(self, quick, thorough=None):
        base = quick if (self.tier == "quick" or thorough is None) else thorough
        return max(1, int(base * self.scale))

    def label(self, s, k=1):
        self.labels[s] = self.labels.get(s, 0) + k

    def rbytes(self, n):
        return bytes(self.rng.getrandbits(8) for _ in range(n))


class Engine:
    def __init__(self, mod, tier, seed):
        self.mod = mod
        self.pid = mod.PID
        self.tier = tier
        self.seed = seed
        self.t0 = time.time()
        self.evaluations = 0
        self.corr_cases = 0
        self.prop_cases = 0
        self.distinct = set()
        self.fn_counts = {}
        self.err_kinds = {}
        self.samples = []
        self.corr_fail = []
        self.prop_fail = []
        self.labels = {}
        self.drv = None
        self.model_errs = 0
        self.impl_errs = 0
        self.vm_cases = []
        self.vm_seen = {}

    # ---- single cases ----
    def run_corr(self, name, args, record=True):
        impl_v, ek = safe(self.mod.IMPL[name], args)
        try:
            model_v = self.drv.call(name, *args)
        except RuntimeError as e:
            model_v = ["driver-failure", str(e)[:200].encode()]
        if record and self.drv is not None and not (isinstance(model_v, list) and model_v[:1] == ["driver-failure"]):
            self._selfcheck_offer(name, args, model_v)
        if record:
            self.evaluations += 1
            self.corr_cases += 1
            self.fn_counts[name] = self.fn_counts.get(name, 0) + 1
            if ek:
                self.err_kinds[ek] = self.err_kinds.get(ek, 0) + 1
            if impl_v is ERR:
                self.impl_errs += 1
            else:
                self.distinct.add(hashlib.sha1((name + sexp.enc(args)).encode()).digest())
            if len(self.samples) < 12 and self.fn_counts[name] <= 1:
                self.samples.append({"kind": "corr", "fn": name, "args": sexp.short(args, 160),
                                     "impl": sexp.short(impl_v, 160), "model": sexp.short(model_v, 160)})
        if impl_v != model_v:
            return {"kind": "corr", "name": name, "args": args, "impl": impl_v, "model": model_v}
        return None

    def run_prop(self, name, args, record=True):
        signal.signal(signal.SIGALRM, _alarm)
        signal.setitimer(signal.ITIMER_REAL, 120)
        try:
            detail = self.mod.PROPS[name](*args)
        except ImplTimeout:
            TIMEOUTS[0] += 1
            detail = "property predicate timed out (implementation hang)"
        except Exception as e:  # noqa
            detail = "property predicate raised " + "".join(
                traceback.format_exception_only(type(e), e)).strip()[:300]
        finally:
            signal.setitimer(signal.ITIMER_REAL, 0)
        if record:
            self.evaluations += 1
            self.prop_cases += 1
            key = "prop:" + name
            self.fn_counts[key] = self.fn_counts.get(key, 0) + 1
            self.distinct.add(hashlib.sha1((key + sexp.enc(args)).encode()).digest())
            if len(self.samples) < 24 and self.fn_counts[key] <= 1:
                self.samples.append({"kind": "prop", "predicate": name, "args": sexp.short(args, 160),
                                     "result": "holds" if detail is None else detail[:160]})
        if detail is not None:
            return {"kind": "prop", "name": name, "args": args, "detail": detail}
        return None

    def run_case(self, case, record=True):
        kind, name, args = case
        args = sexp.canon(list(args))
        if kind == "corr":
            return self.run_corr(name, args, record)
        return self.run_prop(name, args, record)

    # ---- extraction self-check: the same cases evaluated by vm_compute inside Coq ----
    def _selfcheck_offer(self, name, args, model_v):
        skip = getattr(self.mod, "VM_SKIP", ())
        if skip == "*" or name in skip or self.drv is None:
            return
        orc = list(self.drv.last_oracle)
        size = len(sexp.enc(args)) + len(sexp.enc(model_v)) + \
            sum(len(r) * 2 + sum(len(a) * 2 for a in ar) for _, ar, r in orc)
        if size > 4000 or len(orc) > 24:
            return
        per_fn = self.vm_seen.get(name, 0)
        limit = 6 if self.tier == "quick" else 40
        if per_fn >= limit:
            # reservoir-free thinning: keep early and a few later ones
            return
        self.vm_seen[name] = per_fn + 1
        self.vm_cases.append((name, args, model_v, orc))

    def run_selfcheck(self):
        """Returns (n_cases, failures:list[str], note)."""
        if not self.vm_cases:
            return 0, [], "no cases sampled"
        if os.environ.get("VERIF_MUT_FAST") and os.environ.get("VERIF_EVID_DIR"):
            return 0, [], "skipped (scratch mutation-adequacy run)"

        def cz(n):
            return f"({n})%Z"

        def cb(b):
            return "[" + "; ".join(f"{x}%Z" for x in b) + "]"

        def cv(v):
            if v is ERR:
                return "VErr"
            if isinstance(v, int):
                return f"(VI {cz(v)})"
            if isinstance(v, bytes):
                return f"(VB {cb(v)})"
            return "(VL [" + "; ".join(cv(x) for x in v) + "])"

        d = os.path.join(build.BUILD, self.pid)
        os.makedirs(d, exist_ok=True)
        lines = ["From V Require Import Base.Prelude Base.Disp Dispatch.D%s." % self.pid,
                 "Definition one (tbl : list (Z * list (list Z) * list Z)) (fn : list Z) (args : list val) (expect : val) : bool :=",
                 "  val_eqb (D%s.dispatch (table_oracle tbl) fn args) expect." % self.pid]
        names = []
        for k, (name, args, model_v, orc) in enumerate(self.vm_cases):
            tbl = "[" + "; ".join(f"({cz(a)}, [{'; '.join(cb(x) for x in ar)}], {cb(r)})" for a, ar, r in orc) + "]"
            fn = cb(name.encode())
            al = "[" + "; ".join(cv(x) for x in args) + "]"
            lines.append(f"Definition c{k} : bool := one {tbl} {fn} {al} {cv(model_v)}.")
            names.append(f"c{k}")
        lines.append("Definition all_cases : list bool := [" + "; ".join(names) + "].")
        lines.append("Eval vm_compute in (map (fun b : bool => if b then 1%nat else 0%nat) all_cases).")
        path = os.path.join(d, "selfcheck.v")
        open(path, "w").write("\n".join(lines) + "\n")
        try:
            rc, out, dt = build.run(["coqc", "-Q", build.COQ, "V", path], cwd=d,
                                    timeout=240 if self.tier == "quick" else 1200)
        except Exception as e:  # timeout
            return len(self.vm_cases), [], f"skipped: coqc did not finish ({type(e).__name__})"
        if rc != 0:
            if "inconsistent assumptions" in out or "Stack overflow" in out or "Out of memory" in out:
                return len(self.vm_cases), [], "skipped: " + out.strip().splitlines()[-1][:120]
            return len(self.vm_cases), ["selfcheck.v did not compile: " + out[-400:]], "error"
        import re as _re
        m = _re.search(r"=\s*\[([^\]]*)\]", out)
        if not m:
            return len(self.vm_cases), ["selfcheck output not understood: " + out[-300:]], "error"
        bits = [x.strip() for x in m.group(1).replace("\n", " ").split(";") if x.strip()]
        fails = []
        for k, b in enumerate(bits):
            if not b.startswith("1") and k < len(self.vm_cases):
                name, args, model_v, _ = self.vm_cases[k]
                fails.append(f"vm_compute disagrees with the extracted driver on {name} {sexp.short(args, 200)}")
        return len(self.vm_cases), fails, f"{len(bits)} cases evaluated inside Coq in {dt:.1f}s"

    # ---- shrinking of correspondence disagreements ----
    def shrink(self, v, budget=150):
        if v["kind"] != "corr":
            return v
        name, args = v["name"], v["args"]
        best = v

        def cands(a):
            if isinstance(a, int):
                for c in (0, 1, a // 2, a - 1):
                    if c != a and abs(c) < abs(a):
                        yield c
            elif isinstance(a, bytes):
                n = len(a)
                if n:
                    yield a[: n // 2]
                    yield a[n // 2:]
                    yield a[:-1]
                    yield a[1:]
                    if any(a):
                        yield bytes(n)
            elif isinstance(a, list):
                n = len(a)
                if n:
                    yield a[: n // 2]
                    yield a[:-1]
                    yield a[1:]
                for i, x in enumerate(a):
                    for c in cands(x):
                        yield a[:i] + [c] + a[i + 1:]

        improved = True
        t_end = time.time() + 45            # a hanging implementation call costs a full time limit per trial
        t_before = TIMEOUTS[0]
        while improved and budget > 0:
            improved = False
            for i, a in enumerate(best["args"]):
                for c in cands(a):
                    budget -= 1
                    if budget <= 0 or time.time() > t_end or TIMEOUTS[0] > t_before + 1:
                        budget = 0
                        break
                    trial = best["args"][:i] + [c] + best["args"][i + 1:]
                    try:
                        r = self.run_corr(name, trial, record=False)
                    except Exception:
                        r = None
                    if r is not None and not (isinstance(r["model"], list) and r["model"][:1] == ["driver-failure"]):
                        best = r
                        improved = True
                        break
                if improved or budget <= 0:
                    break
        return best

    # ---- findings ----
    def load_findings(self):
        """KNOWN_FINDINGS.json plus the per-property fragments findings/<id>.json (same entry format)."""
        out = []
        for path in [FINDINGS, os.path.join(VERIF, "findings", self.pid + ".json")]:
            try:
                allf = json.load(open(path))
            except FileNotFoundError:
                continue
            for f in allf.get("findings", []):
                if f.get("property") == self.pid and f.get("key") not in {g.get("key") for g in out}:
                    out.append(f)
        return out

    def classify(self, v):
        if hasattr(self.mod, "classify"):
            try:
                return self.mod.classify(v)
            except Exception:
                return None
        return None

    # ---- main ----
    def run(self):
        pid = self.pid
        os.makedirs(REPLAYS, exist_ok=True)
        if os.environ.get("VERIF_MUT_FAST") and os.environ.get("VERIF_EVID_DIR"):
            pr = {"failures": [], "theorems": [], "assumptions": {}, "obligations": 0, "discharged": 0}
        else:
            pr = proofs.check_props(pid)
        proof_fail = list(pr["failures"])
        try:
            exe = build.build_driver(pid)
            self.drv = Driver(exe)
        except Exception as e:  # noqa
            proof_fail.append("model extraction/driver build failed: " + str(e)[-800:])
            self.drv = None
        lines = []
        violations = []
        known_hits = {}
        stale = []
        findings = self.load_findings()
        known_keys = {f["key"]: f for f in findings if f.get("status") == "known"}

        def handle(v):
            if v is None:
                return
            key = self.classify(v)
            if key is None:
                for f in findings:
                    rp = f.get("replay")
                    if rp and f.get("status") == "known" and rp["kind"] == v["kind"] and rp["name"] == v["name"] \
                            and sexp.from_json(rp["args"]) == v["args"]:
                        key = f["key"]
            if key in known_keys:
                known_hits[key] = known_hits.get(key, 0) + 1
                return
            (self.corr_fail if v["kind"] == "corr" else self.prop_fail).append(v)

        if self.drv is not None:
            # 1. replay known / fixed findings
            for f in findings:
                rp = f.get("replay")
                if not rp:
                    continue
                case = (rp["kind"], rp["name"], sexp.from_json(rp["args"]))
                try:
                    v = self.run_case(case)
                except Exception as e:  # noqa
                    v = {"kind": rp["kind"], "name": rp["name"], "args": case[2],
                         "detail": "replay raised " + repr(e)[:200]}
                if f.get("status") == "known":
                    if v is not None:
                        known_hits[f["key"]] = known_hits.get(f["key"], 0) + 1
                    else:
                        stale.append(f["key"])
                else:  # fixed: regression case
                    if v is not None:
                        v["regression_of"] = f["key"]
                        (self.corr_fail if v["kind"] == "corr" else self.prop_fail).append(v)
            # 2. corpus
            cfile = os.path.join(CORPUS, pid + ".jsonl")
            if os.path.exists(cfile):
                for line in open(cfile):
                    line = line.strip()
                    if not line:
                        continue
                    j = json.loads(line)
                    handle(self.run_case((j["kind"], j["name"], sexp.from_json(j["args"]))))
            # 3. generated cases
            ctx = Ctx(pid, self.tier, self.seed)
            budget_s = getattr(self.mod, "BUDGET_S", {"quick": 600, "thorough": 3000})[self.tier]
            t_gen = time.time()          # the case budget starts after the builds
            try:
                for case in guarded_iter(self.mod.generate(ctx)):
                    handle(self.run_case(case))
                    if len(self.corr_fail) + len(self.prop_fail) > 50:
                        break
                    if TIMEOUTS[0] >= 4 and (self.corr_fail or self.prop_fail):
                        ctx.label("stopped-after-repeated-timeouts")
                        break
                    if time.time() - t_gen > budget_s:
                        ctx.label("time-budget-reached")
                        break
            except Exception as e:  # noqa  (the generators call into the implementation to build cases)
                proof_fail.append("case generation could not drive the implementation: " +
                                  "".join(traceback.format_exception_only(type(e), e)).strip()[:300] +
                                  " @ " + traceback.format_tb(e.__traceback__)[-1].strip().replace("\n", " ")[:200])
            self.labels = ctx.labels
            # 3b. extraction self-check (same cases by vm_compute inside Coq)
            try:
                self.vm_n, vm_fail, self.vm_note = self.run_selfcheck()
                if vm_fail:
                    # never raise an alarm on a stale .vo: rebuild the dispatcher and evaluate once more
                    build.coq_make([f"Dispatch/D{pid}.vo"])
                    self.vm_n, vm_fail, self.vm_note = self.run_selfcheck()
            except Exception as e:  # noqa
                self.vm_n, vm_fail, self.vm_note = 0, [], "skipped: " + repr(e)[:200]
            for msg in vm_fail[:5]:
                proof_fail.append("extraction self-check: " + msg)
            # 4. escalation: correspondence or proof broke but no failing input yet
            if (self.corr_fail or proof_fail) and not self.prop_fail:
                ctx2 = Ctx(pid, self.tier, self.seed, scale=8.0)
                t1 = time.time()
                try:
                    for case in guarded_iter(self.mod.generate(ctx2)):
                        if case[0] != "prop":
                            continue
                        if TIMEOUTS[0] >= 8:
                            break
                        v = self.run_case(case)
                        if v is not None and self.classify(v) not in known_keys:
                            self.prop_fail.append(v)
                            break
                        if time.time() - t1 > budget_s:
                            break
                except Exception as e:  # noqa  (a generator that cannot drive the tree under test: already recorded above)
                    if not any("case generation" in m for m in proof_fail):
                        proof_fail.append("case generation (search) could not drive the implementation: " + repr(e)[:300])
                # neighbours of the disagreeing inputs, if the module offers them
                if not self.prop_fail and hasattr(self.mod, "search_near"):
                    try:
                        for cf in self.corr_fail[:5]:
                            for case in self.mod.search_near(ctx2, cf):
                                v = self.run_case(case)
                                if v is not None and self.classify(v) not in known_keys:
                                    self.prop_fail.append(v)
                                    break
                            if self.prop_fail:
                                break
                    except Exception:  # noqa
                        pass

        # ---- verdict ----
        def dump(obj, tag):
            path = os.path.join(REPLAYS, f"{pid}-{tag}-{self.seed}.json")
            json.dump(obj, open(path, "w"), indent=1)
            return path

        def vjson(v):
            out = {"property": pid, "kind": v["kind"], "name": v["name"], "args": sexp.to_json(v["args"]),
                   "args_text": sexp.short(v["args"], 2000)}
            for k in ("detail", "regression_of"):
                if k in v:
                    out[k] = v[k]
            if v["kind"] == "corr":
                out["impl"] = sexp.short(v["impl"], 2000)
                out["model"] = sexp.short(v["model"], 2000)
            return out

        if self.prop_fail:
            seen = set()
            for i, v in enumerate(self.prop_fail[:5]):
                if v["name"] in seen:
                    continue
                seen.add(v["name"])
                j = vjson(v)
                j["what"] = "the property fails on the implementation for this input"
                j["related_correspondence_failures"] = [vjson(self.shrink(c)) for c in self.corr_fail[:3]]
                j["proof_failures"] = proof_fail
                path = dump(j, f"prop{i}")
                lines.append(f"VIOLATION property={pid} replay={path}")
                violations.append(j)
        elif self.corr_fail or proof_fail:
            j = {"property": pid, "kind": "no-failing-input-found",
                 "what": "a proof obligation or the model/implementation correspondence no longer checks; "
                         "the search found no input on which the property itself fails",
                 "proof_failures": proof_fail,
                 "broken_correspondence": [vjson(self.shrink(c)) for c in self.corr_fail[:5]],
                 "theorems": pr["theorems"]}
            path = dump(j, "nofail")
            lines.append(f"VIOLATION property={pid} replay={path} no-failing-input-found")
            violations.append(j)
        for key, cnt in sorted(known_hits.items()):
            f = known_keys[key]
            print(f"KNOWN-FINDING: property={pid} {key}: {f['what']} ({cnt} occurrence(s) this run)")
        for line in lines:
            print(line)

        # ---- evidence ----
        hyps = sorted({a for v in pr["assumptions"].values() for a in v})
        tb = [
            "Coq 8.16.1 kernel incl. vm_compute; no native_compute",
            "axioms reported by Print Assumptions: " + (", ".join(hyps) if hyps else "none (every theorem of this property is closed under the global context)"),
            "extraction: ExtrOcamlBasic + ExtrOcamlZBigInt (zarith) directives only; OCaml driver ocaml/driver.ml",
            "correspondence harness (Python): generators, canonicaliser, hashlib/hmac hash oracle",
        ] + list(getattr(self.mod, "TRUSTED", []))
        ev = {
            "property_id": pid,
            "tier": self.tier,
            "seed": self.seed,
            "level": "proof",
            "coverage": {
                "obligations": pr["obligations"],
                "discharged": pr["discharged"],
                "checker_cmd": pr.get("checker_cmd", ""),
                "trusted_base": tb,
                "theorems": pr["theorems"],
                "print_assumptions": pr["assumptions"],
                "proof_files": pr.get("files", []),
                "proof_failures": proof_fail,
                "evaluations": self.evaluations,
                "distinct_nontrivial": len(self.distinct),
                "rule": "correspondence cases (implementation vs extracted Coq model on the same input) and "
                        "property-predicate cases on the implementation; a case counts as distinct non-trivial "
                        "when its (function, arguments) pair is new and, for correspondence cases, the "
                        "implementation did not raise on it. " + getattr(self.mod, "RULE", ""),
                "traces_validated_against_impl": self.corr_cases,
                "property_predicate_cases": self.prop_cases,
                "disagreements_checked": len(self.corr_fail),
                "implementation_errors": self.impl_errs,
                "per_function": self.fn_counts,
                "error_kinds": self.err_kinds,
                "labels": self.labels,
                "model_calls": self.drv.calls if self.drv else 0,
                "hash_oracle_calls": self.drv.oracle_calls if self.drv else 0,
                "samples": self.samples,
                "extraction_selfcheck": {"cases": getattr(self, "vm_n", 0), "note": getattr(self, "vm_note", "")},
                "known_findings_seen": known_hits,
                "stale_known_findings": stale,
                "exhaustive": False,
            },
            "assumptions": list(getattr(self.mod, "ASSUMPTIONS", [])),
            "wall_s": round(time.time() - self.t0, 2),
            "violations": len(violations),
        }
        os.makedirs(EVID, exist_ok=True)
        json.dump(ev, open(os.path.join(EVID, pid + ".json"), "w"), indent=1, sort_keys=True)
        if self.drv:
            self.drv.close()
        return 1 if violations else 0
