"""Value syntax of the driver line protocol:  int | x<hex> | ( v* ) | E"""


class _Err:
    def __repr__(self):
        return "ERR"

    def __eq__(self, other):
        return isinstance(other, _Err)

    def __hash__(self):
        return 7


ERR = _Err()


def canon(v):
    """Canonical Python value: int, bytes, list, ERR."""
    if v is ERR:
        return ERR
    if isinstance(v, bool):
        return 1 if v else 0
    if isinstance(v, int):
        return v
    if isinstance(v, (bytes, bytearray)):
        return bytes(v)
    if isinstance(v, str):
        return v.encode("utf-8", "surrogatepass")
    if isinstance(v, (list, tuple)):
        return [canon(x) for x in v]
    if v is None:
        return []
    raise TypeError(f"cannot canonicalise {type(v)}")


def enc(v):
    v = canon(v)
    if v is ERR:
        return "E"
    if isinstance(v, int):
        return str(v)
    if isinstance(v, bytes):
        return "x" + v.hex()
    return "(" + " ".join(enc(x) for x in v) + ")"


def dec(s):
    toks = s.replace("(", " ( ").replace(")", " ) ").split()
    pos = 0

    def val():
        nonlocal pos
        t = toks[pos]
        pos += 1
        if t == "(":
            out = []
            while toks[pos] != ")":
                out.append(val())
            pos += 1
            return out
        if t == "E":
            return ERR
        if t[0] == "x":
            return bytes.fromhex(t[1:])
        return int(t)

    v = val()
    if pos != len(toks):
        raise ValueError("trailing tokens in " + s[:80])
    return v


def to_json(v):
    v = canon(v)
    if v is ERR:
        return {"err": True}
    if isinstance(v, int):
        return {"i": str(v)}
    if isinstance(v, bytes):
        return {"b": v.hex()}
    return [to_json(x) for x in v]


def from_json(j):
    if isinstance(j, list):
        return [from_json(x) for x in j]
    if "err" in j:
        return ERR
    if "i" in j:
        return int(j["i"])
    return bytes.fromhex(j["b"])


def short(v, lim=120):
    s = enc(v)
    return s if len(s) <= lim else s[:lim] + f"...[{len(s)} chars]"
