import argparse
import importlib
import json
import os
import sys

from . import core, sexp


def main():
    ap = argparse.ArgumentParser()
    ap.add_argument("pid", nargs="?")
    ap.add_argument("--tier", default=os.environ.get("VERIF_TIER", "quick"))
    ap.add_argument("--seed", type=int, default=int(os.environ.get("VERIF_SEED", "1")))
    ap.add_argument("--replay")
    a = ap.parse_args()
    if a.replay:
        j = json.load(open(a.replay))
        pid = j["property"]
        mod = importlib.import_module("props." + pid.lower())
        eng = core.Engine(mod, "quick", 0)
        from . import build
        from .driver import Driver
        eng.drv = Driver(build.build_driver(pid))
        cases = [j] if j.get("kind") in ("corr", "prop") else j.get("broken_correspondence", [])
        bad = 0
        for c in cases:
            v = eng.run_case((c["kind"], c["name"], sexp.from_json(c["args"])), record=False)
            if v is None:
                print("replay: holds now:", c["kind"], c["name"])
            else:
                bad += 1
                print("replay: FAILS:", c["kind"], c["name"], sexp.short(v["args"], 300))
                print("   ", v.get("detail") or f"impl={sexp.short(v['impl'], 300)} model={sexp.short(v['model'], 300)}")
        for pf in j.get("proof_failures", []):
            print("proof failure recorded:", pf[:300])
        sys.exit(1 if bad else 0)
    if a.tier not in ("quick", "thorough"):
        a.tier = "quick"
    try:
        mod = importlib.import_module("props." + a.pid.lower())
    except Exception as e:  # noqa: the implementation (or the module's set-up against it) does not even load
        import traceback
        os.makedirs(core.REPLAYS, exist_ok=True)
        path = os.path.join(core.REPLAYS, f"{a.pid}-load-{a.seed}.json")
        json.dump({"property": a.pid, "kind": "no-failing-input-found",
                   "what": "the property module could not be loaded against the tree under test, so neither the "
                           "correspondence nor the property could be checked",
                   "proof_failures": ["load failure: " + "".join(traceback.format_exception(type(e), e, e.__traceback__))[-1500:]],
                   "broken_correspondence": []}, open(path, "w"), indent=1)
        json.dump({"property_id": a.pid, "tier": a.tier, "seed": a.seed, "level": "proof",
                   "coverage": {"obligations": 1, "discharged": 0, "checker_cmd": "(not reached)", "trusted_base": [],
                                "evaluations": 0, "distinct_nontrivial": 0, "explanation": "property module failed to load"},
                   "wall_s": 0.0, "violations": 1}, open(os.path.join(core.EVID, a.pid + ".json"), "w"), indent=1)
        print(f"VIOLATION property={a.pid} replay={path} no-failing-input-found")
        sys.exit(1)
    try:
        rc = core.Engine(mod, a.tier, a.seed).run()
    except Exception as e:  # noqa: last line of defence — a crash of the machinery is never a silent pass nor a bare traceback
        import traceback
        os.makedirs(core.REPLAYS, exist_ok=True)
        path = os.path.join(core.REPLAYS, f"{a.pid}-crash-{a.seed}.json")
        json.dump({"property": a.pid, "kind": "no-failing-input-found",
                   "what": "the check could not be completed against the tree under test (the harness or the code it "
                           "drives raised outside a case), so the property is not shown to hold",
                   "proof_failures": ["crash: " + "".join(traceback.format_exception(type(e), e, e.__traceback__))[-2000:]],
                   "broken_correspondence": []}, open(path, "w"), indent=1)
        print(f"VIOLATION property={a.pid} replay={path} no-failing-input-found")
        sys.exit(1)
    sys.exit(rc)


if __name__ == "__main__":
    main()
