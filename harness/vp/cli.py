import argparse
import importlib
import json
import os
import sys

from . import core, sexp


def main():
    ap = argparse.ArgumentParser()
    ap.add_argument("pid", nargs="?")
    ap.add_argument("--tier", default=os.environ.get("VERIF_TIER", "quick"))
    ap.add_argument("--seed", type=int, default=int(os.environ.get("VERIF_SEED", "1")))
    ap.add_argument("--replay")
    a = ap.parse_args()
    if a.replay:
        j = json.load(open(a.replay))
        pid = j["property"]
        mod = importlib.import_module("props." + pid.lower())
        eng = core.Engine(mod, "quick", 0)
        from . import build
        from .driver import Driver
        eng.drv = Driver(build.build_driver(pid))
        cases = [j] if j.get("kind") in ("corr", "prop") else j.get("broken_correspondence", [])
        bad = 0
        for c in cases:
            v = eng.run_case((c["kind"], c["name"], sexp.from_json(c["args"])), record=False)
            if v is None:
                print("replay: holds now:", c["kind"], c["name"])
            else:
                bad += 1
                print("replay: FAILS:", c["kind"], c["name"], sexp.short(v["args"], 300))
                print("   ", v.get("detail") or f"impl={sexp.short(v['impl'], 300)} model={sexp.short(v['model'], 300)}")
        for pf in j.get("proof_failures", []):
            print("proof failure recorded:", pf[:300])
        sys.exit(1 if bad else 0)
    if a.tier not in ("quick", "thorough"):
        a.tier = "quick"
    mod = importlib.import_module("props." + a.pid.lower())
    sys.exit(core.Engine(mod, a.tier, a.seed).run())


if __name__ == "__main__":
    main()
