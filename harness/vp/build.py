"""Builds: Coq project (make), per-property extraction + OCaml driver."""
import hashlib
import os
import subprocess
import time

VERIF = os.path.dirname(os.path.dirname(os.path.dirname(os.path.abspath(__file__))))
COQ = os.path.join(VERIF, "coq")
BUILD = os.path.join(VERIF, "build")
JOBS = str(min(16, os.cpu_count() or 4))


MEM_LIMIT = 24 * 2 ** 30     # address-space limit for every child (coqc, make, ocaml): a runaway proof term must not
                             # take the machine down; a file that needs more fails its build instead


def _limits():
    import resource
    try:
        resource.setrlimit(resource.RLIMIT_AS, (MEM_LIMIT, MEM_LIMIT))
    except Exception:  # noqa
        pass


def run(cmd, cwd=None, timeout=3600):
    t0 = time.time()
    p = subprocess.run(cmd, cwd=cwd, shell=isinstance(cmd, str), stdout=subprocess.PIPE,
                       stderr=subprocess.STDOUT, text=True, timeout=timeout, preexec_fn=_limits)
    return p.returncode, p.stdout, time.time() - t0


def coq_make(targets=None, timeout=3000):
    """Full .vo build (never -vos).  Returns (ok, log)."""
    os.makedirs(BUILD, exist_ok=True)
    rc, out, dt = run([os.path.join(VERIF, "coqmake")] + (targets or []), cwd=VERIF, timeout=timeout)
    return rc == 0, out


def vo_deps(vfile):
    """Transitive .v dependencies (inside the project) of a file, via coqdep."""
    seen = set()
    todo = [vfile]
    while todo:
        f = todo.pop()
        if f in seen:
            continue
        seen.add(f)
        rc, out, _ = run(["coqdep", "-Q", ".", "V", f], cwd=COQ)
        for line in out.splitlines():
            if ":" not in line:
                continue
            rhs = line.split(":", 1)[1]
            for d in rhs.split():
                if d.endswith(".vo") and not d.startswith("/"):
                    v = d[:-1]
                    if os.path.exists(os.path.join(COQ, v)):
                        todo.append(v)
    return sorted(seen)


def build_driver(pid):
    """Extract Dispatch/D<pid>.v and compile the OCaml driver.  Returns path."""
    d = os.path.join(BUILD, pid)
    os.makedirs(d, exist_ok=True)
    if os.environ.get("VERIF_MUT_FAST") and os.path.exists(os.path.join(d, "driver")):
        return os.path.join(d, "driver")       # scratch mutation runs (many in parallel) reuse the built driver
    import fcntl
    lock = open(os.path.join(d, ".lock"), "w")
    fcntl.flock(lock, fcntl.LOCK_EX)           # two checks of one property must not extract into the same files at once
    try:
        return _build_driver_locked(pid, d)
    finally:
        fcntl.flock(lock, fcntl.LOCK_UN)
        lock.close()


def _build_driver_locked(pid, d):
    xv = os.path.join(COQ, "Extract", f"X{pid}.v")
    rc, out, _ = run(["coqc", "-Q", COQ, "V", xv], cwd=d, timeout=600)
    if rc != 0 and "inconsistent assumptions" in out:
        coq_make([f"Dispatch/D{pid}.vo"])
        rc, out, _ = run(["coqc", "-Q", COQ, "V", xv], cwd=d, timeout=600)
    for ext in (".vo", ".glob", ".vok", ".vos"):
        try:
            os.remove(os.path.join(COQ, "Extract", f"X{pid}{ext}"))
        except OSError:
            pass
    try:
        os.remove(os.path.join(COQ, "Extract", f".X{pid}.aux"))
    except OSError:
        pass
    if rc != 0:
        raise RuntimeError("extraction failed:\n" + out[-3000:])
    src = open(os.path.join(d, "model.ml"), "rb").read() + \
        open(os.path.join(VERIF, "ocaml", "driver.ml"), "rb").read()
    h = hashlib.sha256(src).hexdigest()
    stamp = os.path.join(d, "driver.sha")
    exe = os.path.join(d, "driver")
    if os.path.exists(exe) and os.path.exists(stamp) and open(stamp).read() == h:
        return exe
    with open(os.path.join(d, "driver.ml"), "wb") as f:
        f.write(open(os.path.join(VERIF, "ocaml", "driver.ml"), "rb").read())
    rc, out, _ = run(["ocamlfind", "ocamlopt", "-package", "zarith", "-linkpkg",
                      "model.mli", "model.ml", "driver.ml", "-o", "driver"], cwd=d, timeout=900)
    if rc != 0:
        raise RuntimeError("ocaml build failed:\n" + out[-3000:])
    open(stamp, "w").write(h)
    return exe
