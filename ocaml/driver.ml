(* driver.ml — generic line-protocol front end for an extracted dispatcher.
   Request:  <fn> <value>*            Response:  <value>
   value ::= <decimal int> | x<hex> | ( value* ) | E
   Hash oracle: the driver prints "? <alg> <hex>*" and reads one hex line back. *)

let zi = Big_int_Z.big_int_of_int
let iz = Big_int_Z.int_of_big_int

let hexdig = "0123456789abcdef"
let bytes_to_hex (b : Big_int_Z.big_int list) : string =
  let buf = Buffer.create 64 in
  List.iter (fun z -> let v = iz z in
    if v < 0 || v > 255 then Buffer.add_string buf "!!"
    else begin Buffer.add_char buf hexdig.[v lsr 4]; Buffer.add_char buf hexdig.[v land 15] end) b;
  Buffer.contents buf

let hv c = match c with
  | '0'..'9' -> Char.code c - 48 | 'a'..'f' -> Char.code c - 87 | 'A'..'F' -> Char.code c - 55
  | _ -> failwith "hex"
let hex_to_bytes (s : string) (off : int) : Big_int_Z.big_int list =
  let n = (String.length s - off) / 2 in
  let rec go i acc = if i < 0 then acc else
    go (i-1) (zi (hv s.[off+2*i] * 16 + hv s.[off+2*i+1]) :: acc) in
  go (n-1) []

let oracle (alg : Big_int_Z.big_int) (args : Big_int_Z.big_int list list) : Big_int_Z.big_int list =
  print_string "? "; print_string (Big_int_Z.string_of_big_int alg);
  List.iter (fun a -> print_string " x"; print_string (bytes_to_hex a)) args;
  print_newline ();
  let line = input_line stdin in
  hex_to_bytes (String.trim line) 0

(* tokeniser *)
let tokens (s : string) : string list =
  let n = String.length s in
  let rec go i acc =
    if i >= n then List.rev acc
    else match s.[i] with
      | ' ' | '\t' | '\r' -> go (i+1) acc
      | '(' -> go (i+1) ("(" :: acc)
      | ')' -> go (i+1) (")" :: acc)
      | _ -> let j = ref i in
             while !j < n && s.[!j] <> ' ' && s.[!j] <> '(' && s.[!j] <> ')' do incr j done;
             go !j (String.sub s i (!j - i) :: acc) in
  go 0 []

let rec parse_val (ts : string list) : Model.val0 * string list =
  match ts with
  | [] -> failwith "eof"
  | "(" :: r -> let rec items ts acc = (match ts with
                  | ")" :: r' -> (Model.VL (List.rev acc), r')
                  | _ -> let (v, r') = parse_val ts in items r' (v :: acc)) in
                items r []
  | "E" :: r -> (Model.VErr, r)
  | t :: r -> if t.[0] = 'x' then (Model.VB (hex_to_bytes t 1), r)
              else (Model.VI (Big_int_Z.big_int_of_string t), r)

let rec parse_vals ts acc = match ts with
  | [] -> List.rev acc
  | _ -> let (v, r) = parse_val ts in parse_vals r (v :: acc)

let rec print_val (b : Buffer.t) (v : Model.val0) : unit =
  match v with
  | Model.VI z -> Buffer.add_string b (Big_int_Z.string_of_big_int z)
  | Model.VB x -> Buffer.add_char b 'x'; Buffer.add_string b (bytes_to_hex x)
  | Model.VErr -> Buffer.add_char b 'E'
  | Model.VL l -> Buffer.add_char b '(';
            List.iteri (fun i x -> if i > 0 then Buffer.add_char b ' '; print_val b x) l;
            Buffer.add_char b ')'

let () =
  try
    while true do
      let line = input_line stdin in
      match tokens line with
      | [] -> print_endline "E"
      | fn :: rest ->
          let name = List.init (String.length fn) (fun i -> zi (Char.code fn.[i])) in
          let res = (try
              let args = parse_vals rest [] in
              let v = Model.dispatch oracle name args in
              let b = Buffer.create 256 in print_val b v; "= " ^ Buffer.contents b
            with Stack_overflow -> "! stack_overflow"
               | e -> "! " ^ Printexc.to_string e) in
          print_endline res
    done
  with End_of_file -> ()
